"""Semantic table: meaning of external callees for the value-flow engine.

Trusted base (DESIGN.md 3.3 / Appendix B).  Keys are produced by facts.callee_key:
trait::method for trait items, Type::method for inherent methods, the path for free fns.
Every handler has the signature h(vf, node, fn, args) -> value.
A callee that is not listed is evaluated as an uninterpreted application whose `&mut`
arguments receive a post-state (vflow.default_call).
"""
from . import terms as T
from .vflow import Ref, Clos, Tup, Seq, Opt, Place, index_term, mk_comp, keyrepr, field_term
from .facts import strip_generics, callee_key

TABLE = {}
CLASS = {}     # key -> class name (for evidence: the trusted entries actually used)
USED = set()


def reg(cls, *keys, lazy=False):
    def deco(f):
        for k in keys:
            TABLE[k] = f
            CLASS[k] = cls
        f.lazy = lazy
        return f
    return deco


FALLTHROUGH = object()


class SemTab:
    def lookup(self, key, fn):
        h = TABLE.get(key)
        if h is None:
            return None
        USED.add(key)

        def wrapped(vf, node, fn_, args, h=h, key=key):
            r = h(vf, node, fn_, args)
            if r is FALLTHROUGH:
                return vf_fallthrough(vf, node, fn_, args, key)
            return r
        wrapped.lazy = getattr(h, 'lazy', False)
        return wrapped


def vf_fallthrough(vf, node, fn, args, key):
    target = None
    if fn.get('local') and fn.get('container') != 'trait':
        target = fn['did']
    elif fn.get('resolved_local'):
        target = fn['resolved_did']
    if target is not None and vf.inline:
        body = vf.facts.body(target)
        if body is not None and body.get('thir') is not None:
            if target in vf.inline_stack:
                return vf.recursive_call(body, args, node)
            if strip_generics(body['path']) not in vf.no_inline and len(vf.inline_stack) < vf.MAX_INLINE_DEPTH:
                return vf.inline_call(body, args, node)
    return vf.default_call(key, args, node, fn)


def tt(vf, v):
    return vf.to_term(v)


# ------------------------------------------------------------------ ALIAS

@reg('ALIAS', 'std::ops::Deref::deref', 'std::ops::DerefMut::deref_mut', 'std::vec::Vec::as_slice',
     'std::vec::Vec::as_mut_slice', 'std::convert::AsRef::as_ref', 'std::convert::AsMut::as_mut',
     'std::borrow::Borrow::borrow', 'std::borrow::BorrowMut::borrow_mut',
     'ndarray::ArrayBase::as_slice_mut', 'ndarray::ArrayBase::as_slice', 'ndarray::ArrayBase::view_mut',
     'std::option::Option::as_ref', 'std::option::Option::as_mut')
def h_alias_ref(vf, node, fn, args):
    return args[0]


@reg('ALIAS', 'std::clone::Clone::clone', 'std::borrow::ToOwned::to_owned', 'ndarray::ArrayBase::to_owned',
     'ndarray::ArrayBase::view', 'ndarray::ArrayBase::into_owned', 'ndarray::ArrayBase::to_vec',
 'burn::tensor::Tensor::into_scalar', 'burn::tensor::Tensor::to_data',
     'burn::tensor::Tensor::into_data', 'burn::tensor::TensorData::convert', 'burn::tensor::TensorData::as_slice', 'burn::tensor::TensorData::to_vec',
     'burn::tensor::TensorData::into_vec', 'burn::tensor::TensorData::as_mut_slice', 'core::slice::to_vec', 'std::iter::Iterator::cloned', 'std::iter::Iterator::copied',
     'ndarray::ArrayBase::into_dimensionality', 'std::hint::must_use', 'std::sync::Arc::new', 'std::boxed::Box::new',
     'ndarray::ArrayBase::into_shape_with_order', 'ndarray::ArrayBase::into_dyn',
     'num_traits::NumCast::from', 'num_traits::FromPrimitive::from_f64', 'num_traits::FromPrimitive::from_f32',
     'num_traits::FromPrimitive::from_usize', 'num_traits::FromPrimitive::from_u64', 'num_traits::FromPrimitive::from_i32',
     'num_traits::ToPrimitive::to_f32', 'num_traits::ToPrimitive::to_f64', 'num_traits::ToPrimitive::to_usize',
     'burn::tensor::cast::ToElement::to_f32', 'burn::tensor::cast::ToElement::to_f64', 'burn::tensor::cast::ToElement::to_bool',
     'burn::tensor::ElementConversion::elem', 'std::convert::TryInto::try_into', 'std::convert::TryFrom::try_from',
     'std::option::Option::ok_or', 'std::option::Option::ok_or_else', 'std::result::Result::ok',
     'ndarray::ArrayBase::from_vec', 'ndarray::ArrayBase::from', 'ndarray::arr1', 'ndarray::arr2', 'ndarray::arr3',
     'ndarray::ArrayBase::from_shape_fn')
def h_alias_val(vf, node, fn, args):
    v = vf.deref(args[0])
    if isinstance(v, Seq):
        return v
    return v


@reg('ALIAS', 'burn::tensor::Tensor::detach', 'burn::tensor::Tensor::inner', 'burn::tensor::Tensor::from_inner',
     'burn::tensor::Tensor::set_require_grad', 'burn::tensor::Tensor::no_grad')
def h_detach(vf, node, fn, args):
    """value-preserving, but cuts the autodiff graph: kept visible when the evaluation asks for it
    (density bodies, where a detached factor changes the gradient handed to HMC/NUTS)"""
    v = vf.deref(args[0])
    if getattr(vf, 'graph_cuts_visible', False):
        return T.app(fn.get('name', 'detach'), tt(vf, v))
    return v


@reg('AUTODIFF', 'burn::tensor::Tensor::require_grad')
def h_require_grad(vf, node, fn, args):
    """value-preserving; creates a new autodiff LEAF (identity matters for Tensor::grad), visible on request"""
    v = vf.deref(args[0])
    if getattr(vf, 'graph_cuts_visible', False):
        vf.uid += 1
        return T.app('leaf#%d' % vf.uid, tt(vf, v))
    return v


@reg('ALIAS', 'std::convert::From::from', 'std::convert::Into::into')
def h_from(vf, node, fn, args):
    if fn.get('resolved_local') or (fn.get('local') and fn.get('container') != 'trait'):
        return FALLTHROUGH
    if (node.get('args') or [{}])[0].get('ty') == 'bool' and node.get('ty') != 'bool':
        return T.ite(tt(vf, vf.deref(args[0])), T.ONE, T.ZERO)      # f32::from(flag) / i32::from(flag) is `flag as _`
    return vf.deref(args[0])


@reg('ALIAS', 'std::option::Option::unwrap', 'std::option::Option::expect', 'std::result::Result::unwrap',
     'std::result::Result::expect', 'std::option::Option::unwrap_unchecked', 'std::result::Result::unwrap_unchecked')
def h_unwrap(vf, node, fn, args):
    v = args[0]
    if isinstance(v, Opt):
        vf.discipline.append(('unwrap', tt(vf, v), node.get('sp'), vf.owner()))
        return v.payload
    if isinstance(v, T.Tm) and T.is_app(v, 'opt'):
        v = v[2][1]          # Some-payload of a modelled option: v.get(i).unwrap() == v[i], a.checked_sub(b).unwrap() == a - b
    vf.discipline.append(('unwrap', tt(vf, v) if not isinstance(v, Ref) else tt(vf, v), node.get('sp'), vf.owner()))
    return v


@reg('OPTION', 'core::slice::get', 'std::vec::Vec::get', 'std::slice::get')
def h_slice_get(vf, node, fn, args):
    """v.get(i): Some(&v[i]) iff i < len(v).  Modelled options are opt(cond, payload); `is:Some` / `is:None` tests and Some-payload
    bindings on them are resolved to cond and payload (vflow.variant_test / bind)."""
    v = tt(vf, vf.deref(args[0]))
    i = tt(vf, args[1])
    return T.app('opt', T.cmp('lt', i, T.app('len', v)), index_term(v, i))


@reg('OPTION', 'core::num::checked_sub', 'std::primitive::usize::checked_sub', 'core::num::<impl usize>::checked_sub', 'usize::checked_sub')
def h_checked_sub(vf, node, fn, args):
    """a.checked_sub(b) on unsigned integers: Some(a - b) iff a >= b"""
    a, b = tt(vf, vf.deref(args[0])), tt(vf, vf.deref(args[1]))
    return T.app('opt', T.icmp('ge', a, b), T.sub(a, b))


@reg('ALIAS', 'std::result::Result::map_err')
def h_map_err(vf, node, fn, args):
    vf.discipline.append(('map_err', tt(vf, args[0]), node.get('sp'), vf.owner()))
    return args[0]


@reg('ALIAS', 'std::result::Result::inspect_err', 'std::result::Result::inspect', 'std::option::Option::inspect')
def h_inspect(vf, node, fn, args):
    """r.inspect_err(f) / r.inspect(f): r itself; f sees a shared reference on one of the two paths (its effects are recorded
    under that path's condition)"""
    key = callee_key(fn)
    f = vf.deref(args[1]) if len(args) > 1 else None
    if isinstance(f, Clos):
        t = tt(vf, vf.deref(args[0]))
        if T.is_app(t, 'opt'):
            cond, payload = t[2][0], t[2][1]
        elif key.endswith('inspect_err'):
            cond, payload = T.app('is:Err', t), T.app('payload:Err', t)
        else:
            cond, payload = T.lnot(T.app('is:Err', t)) if 'result' in key else T.app('is:Some', t), t
        vf.branch(cond, lambda: (vf.apply_closure(f, [payload]), T.UNIT)[1], lambda: T.UNIT)
    return args[0]


@reg('CONST', 'rustfft::num_complex::Complex::new', 'num_complex::Complex::new')
def h_complex_new(vf, node, fn, args):
    """Complex::new(re, im) is the struct literal Complex { re, im }"""
    return T.app('adt:rustfft::num_complex::Complex', T.app('f:re', tt(vf, vf.deref(args[0]))), T.app('f:im', tt(vf, vf.deref(args[1]))))


@reg('ALIAS', 'alloc::intrinsics::write_box_via_move')
def h_write_box(vf, node, fn, args):
    return args[1]


@reg('ALIAS', 'std::boxed::box_assume_init_into_vec_unsafe', 'core::slice::into_vec')
def h_into_vec(vf, node, fn, args):
    return vf.deref(args[0])


@reg('SEQ', 'std::boxed::Box::new_uninit')
def h_box_uninit(vf, node, fn, args):
    return T.sym('uninit_box')


# ------------------------------------------------------------------ CONST

@reg('CONST', 'num_traits::One::one')
def h_one(vf, node, fn, args):
    return T.ONE


@reg('CONST', 'num_traits::Zero::zero')
def h_zero(vf, node, fn, args):
    return T.ZERO


@reg('CONST', 'num_traits::FloatConst::PI')
def h_pi(vf, node, fn, args):
    return T.sym('pi')


@reg('CONST', 'num_traits::Float::infinity')
def h_inf(vf, node, fn, args):
    return T.sym('inf')


@reg('CONST', 'num_traits::Float::neg_infinity')
def h_ninf(vf, node, fn, args):
    return T.neg(T.sym('inf'))


@reg('CONST', 'num_traits::Float::epsilon')
def h_eps(vf, node, fn, args):
    return T.sym('machine_eps')


@reg('CONST', 'std::default::Default::default')
def h_default(vf, node, fn, args):
    return T.sym('default:' + (fn['args'][0] if fn.get('args') else '?'))


# ------------------------------------------------------------------ ARITH

def _bin(op):
    def h(vf, node, fn, args):
        a, b = tt(vf, args[0]), tt(vf, args[1])
        return vf.arith(op, a, b)
    return h


reg('ARITH', 'std::ops::Add::add', 'burn::tensor::Tensor::add', 'burn::tensor::Tensor::add_scalar')(_bin('Add'))
# modular arithmetic on machine integers: ring operations (injectivity arguments hold mod 2^64 for unit coefficients)
reg('ARITH', *['%s::wrapping_add' % t for t in ('u64', 'u32', 'usize', 'i64', 'u128')])(_bin('Add'))
reg('ARITH', *['%s::wrapping_sub' % t for t in ('u64', 'u32', 'usize', 'i64', 'u128')])(_bin('Sub'))
reg('ARITH', *['%s::wrapping_mul' % t for t in ('u64', 'u32', 'usize', 'i64', 'u128')])(_bin('Mul'))
reg('ARITH', 'std::ops::Sub::sub', 'burn::tensor::Tensor::sub', 'burn::tensor::Tensor::sub_scalar')(_bin('Sub'))
reg('ARITH', 'std::ops::Mul::mul', 'burn::tensor::Tensor::mul', 'burn::tensor::Tensor::mul_scalar')(_bin('Mul'))
reg('ARITH', 'std::ops::Div::div', 'burn::tensor::Tensor::div', 'burn::tensor::Tensor::div_scalar')(_bin('Div'))


@reg('ARITH', 'std::ops::Neg::neg', 'burn::tensor::Tensor::neg')
def h_neg(vf, node, fn, args):
    return T.neg(tt(vf, args[0]))


def _assign(op):
    def h(vf, node, fn, args):
        r = args[0]
        b = tt(vf, args[1])
        if isinstance(r, Ref):
            cur = tt(vf, vf.read(r.place))
            vf.write(r.place, vf.arith(op, cur, b))
        else:
            vf.note('opassign on non-place', node)
        return T.UNIT
    return h


reg('ARITH', 'std::ops::AddAssign::add_assign')(_assign('Add'))
reg('ARITH', 'std::ops::SubAssign::sub_assign')(_assign('Sub'))
reg('ARITH', 'std::ops::MulAssign::mul_assign')(_assign('Mul'))
reg('ARITH', 'std::ops::DivAssign::div_assign')(_assign('Div'))


@reg('ARITH', 'burn::tensor::Tensor::powi_scalar', 'burn::tensor::Tensor::powf_scalar', 'num_traits::Float::powi',
     'num_traits::Float::powf', 'burn::tensor::Tensor::powf', 'num_traits::pow::Pow::pow')
def h_pow(vf, node, fn, args):
    a, e = tt(vf, args[0]), tt(vf, args[1])
    if T.is_num(e) and e[2] == 1 and abs(e[1]) <= 8:
        return T.powi(a, e[1])
    return T.app('pow', a, e)


@reg('ARITH', 'ndarray::ArrayBase::pow2')
def h_pow2(vf, node, fn, args):
    return T.powi(tt(vf, args[0]), 2)


@reg('ARITH', 'ndarray::ArrayBase::recip', 'num_traits::Float::recip', 'burn::tensor::Tensor::recip')
def h_recip(vf, node, fn, args):
    return T.div(T.ONE, tt(vf, args[0]))


def _func(name):
    def h(vf, node, fn, args):
        return T.app(name, *[tt(vf, a) for a in args])
    return h


reg('FUNC', 'num_traits::Float::ln', 'burn::tensor::Tensor::log', 'f32::ln', 'f64::ln', 'std::f32::ln', 'std::f64::ln')(_func('ln'))
reg('FUNC', 'num_traits::Float::exp', 'burn::tensor::Tensor::exp', 'f32::exp', 'f64::exp', 'std::f32::exp', 'std::f64::exp')(_func('exp'))
reg('FUNC', 'num_traits::Float::sqrt', 'burn::tensor::Tensor::sqrt', 'ndarray::ArrayBase::sqrt', 'f32::sqrt', 'f64::sqrt', 'core::f32::sqrt', 'core::f64::sqrt', 'std::f32::sqrt', 'std::f64::sqrt')(_func('sqrt'))
reg('FUNC', 'num_traits::Float::abs', 'burn::tensor::Tensor::abs', 'num_traits::Signed::abs')(_func('abs'))
reg('FUNC', 'rustfft::num_complex::Complex::conj')(_func('conj'))
reg('FUNC', 'burn::tensor::Tensor::is_nan')(_func('is_nan'))
reg('FUNC', 'burn::tensor::Tensor::bool_not')(_func('bool_not'))
reg('FUNC', 'burn::tensor::Tensor::any')(_func('any'))
reg('FUNC', 'burn::tensor::Tensor::all')(_func('all'))


@reg('FUNC', 'burn::tensor::Tensor::bool_or')
def h_bool_or(vf, node, fn, args):
    return T.app('bool_or', *sorted([tt(vf, a) for a in args], key=T.key))


@reg('SELECT', 'num_traits::Float::min', 'std::cmp::Ord::min')
def h_min(vf, node, fn, args):
    a, b = [tt(vf, x) for x in args][:2]
    if str(node.get('ty', '')) in ('usize', 'u64', 'u32', 'u16', 'u8'):
        # unsigned integers: decided where the order is visible (`n_discard.min(n_collect + n_discard)` is n_discard)
        if known_le(vf, a, b):
            return a
        if known_le(vf, b, a):
            return b
    return T.app('min', *sorted([a, b], key=T.key))


@reg('SELECT', 'num_traits::Float::max', 'std::cmp::Ord::max')
def h_max(vf, node, fn, args):
    a, b = [tt(vf, x) for x in args][:2]
    if str(node.get('ty', '')) in ('usize', 'u64', 'u32', 'u16', 'u8'):
        if known_le(vf, a, b):
            return b
        if known_le(vf, b, a):
            return a
    return T.app('max', *sorted([a, b], key=T.key))


@reg('SELECT', 'burn::tensor::Tensor::mask_where')
def h_mask_where(vf, node, fn, args):
    return T.app('mask_where', *[tt(vf, a) for a in args])


# ------------------------------------------------------------------ CMP

def _cmp(rel):
    def h(vf, node, fn, args):
        return T.cmp(rel, tt(vf, args[0]), tt(vf, args[1]))
    return h


reg('CMP', 'std::cmp::PartialOrd::lt', 'burn::tensor::Tensor::lower', 'burn::tensor::Tensor::lower_elem')(_cmp('lt'))
reg('CMP', 'std::cmp::PartialOrd::le', 'burn::tensor::Tensor::lower_equal', 'burn::tensor::Tensor::lower_equal_elem')(_cmp('le'))
reg('CMP', 'std::cmp::PartialOrd::gt', 'burn::tensor::Tensor::greater', 'burn::tensor::Tensor::greater_elem')(_cmp('gt'))
reg('CMP', 'std::cmp::PartialOrd::ge', 'burn::tensor::Tensor::greater_equal', 'burn::tensor::Tensor::greater_equal_elem')(_cmp('ge'))
reg('CMP', 'std::cmp::PartialEq::eq', 'burn::tensor::Tensor::equal', 'burn::tensor::Tensor::equal_elem')(_cmp('eq'))
reg('CMP', 'std::cmp::PartialEq::ne', 'burn::tensor::Tensor::not_equal', 'burn::tensor::Tensor::not_equal_elem')(_cmp('ne'))

reg('CMP', 'std::cmp::PartialOrd::partial_cmp')(_func('partial_cmp'))
reg('CMP', 'std::cmp::Ord::cmp')(_func('ord_cmp'))
reg('CMP', 'core::f32::total_cmp', 'core::f64::total_cmp', 'f32::total_cmp', 'f64::total_cmp')(_func('total_cmp'))

# ------------------------------------------------------------------ REDUCE / SHAPE (uninterpreted, named)

for _k, _n in {
    'burn::tensor::Tensor::sum': 'sum', 'burn::tensor::Tensor::sum_dim': 'sum_dim', 'burn::tensor::Tensor::mean': 'mean',
    'burn::tensor::Tensor::mean_dim': 'mean_dim',
    'ndarray::ArrayBase::sum': 'sum', 'ndarray::ArrayBase::mean': 'mean', 'ndarray::ArrayBase::sum_axis': 'sum_axis',
    'ndarray::ArrayBase::mean_axis': 'mean_axis', 'ndarray::ArrayBase::std': 'std', 'ndarray::ArrayBase::var': 'var',
    'ndarray::ArrayBase::dot': 'dot', 'burn::tensor::Tensor::matmul': 'matmul',
    'burn::tensor::Tensor::squeeze': 'squeeze', 'burn::tensor::Tensor::unsqueeze': 'unsqueeze',
    'burn::tensor::Tensor::unsqueeze_dim': 'unsqueeze_dim', 'burn::tensor::Tensor::expand': 'expand',
    'burn::tensor::Tensor::reshape': 'reshape', 'burn::tensor::Tensor::permute': 'permute',
    'burn::tensor::Tensor::flatten': 'flatten_t', 'burn::tensor::Tensor::slice': 'slice',
    'burn::tensor::Tensor::slice_assign': 'slice_assign', 'burn::tensor::Tensor::stack': 'stack_t',
    'burn::tensor::Tensor::cat': 'cat_t', 'burn::tensor::Tensor::transpose': 'transpose', 'burn::tensor::Tensor::swap_dims': 'swap_dims',
    'burn::tensor::Tensor::flip': 'flip', 'burn::tensor::Tensor::dims': 'dims', 'burn::tensor::Tensor::shape': 'shape_t',
    'burn::tensor::Shape::new': 'shape_new',
    'ndarray::ArrayBase::index_axis': 'index_axis', 
    'ndarray::ArrayBase::t': 'transpose', 'ndarray::ArrayBase::insert_axis': 'insert_axis',
    'ndarray::ArrayBase::broadcast': 'broadcast', 'ndarray::ArrayBase::shape': 'shape', 
    'ndarray::ArrayBase::first': 'first',
    'ndarray::ArrayBase::last': 'last', 'ndarray::stack': 'stack', 'ndarray::concatenate': 'concatenate',
    'ndarray::ArrayBase::from_shape': 'from_shape', 'ndarray::ArrayBase::from_shape_vec': 'from_shape_vec',
    'ndarray::ArrayBase::zeros': 'zeros', 'burn::tensor::Tensor::zeros_like': 'zeros_like', 'burn::tensor::Tensor::ones': 'ones',
    'burn::tensor::Tensor::zeros': 'zeros_t', 'burn::tensor::Tensor::empty': 'empty_t',
    'burn::tensor::TensorData::new': 'tensordata',
    'ndarray::SliceInfo::new_unchecked': 'sliceinfo',
    'ndarray_stats::QuantileExt::max': 'max_all', 'ndarray_stats::QuantileExt::max_skipnan': 'max_skipnan',
    'ndarray_stats::QuantileExt::min': 'min_all',
    'std::vec::from_elem': 'repeat',
}.items():
    reg('SHAPE', _k)(_func(_n))


@reg('SHAPE', 'ndarray::ArrayBase::slice')
def h_nd_slice(vf, node, fn, args):
    """x.slice(s![a..b]) of a ONE-dimensional array is the sub-slice x[a..b] (a.. runs to len(x)); other ranks keep the
    nd_slice(x, sliceinfo) form that the shape canonicaliser of the specs reads"""
    x = tt(vf, vf.deref(args[0]))
    info = tt(vf, vf.deref(args[1]))
    ty = str((node.get('args') or [{}])[0].get('ty', ''))
    if '[usize; 1]' in ty and T.is_app(info, 'sliceinfo') and info[2] and T.is_app(info[2][0], 'array') and len(info[2][0][2]) == 1:
        e = info[2][0][2][0]
        if T.is_app(e, ('adt:ndarray::SliceInfoElem::Slice', 'std::convert::From::from', 'ndarray::SliceInfoElem::from')) and e[2]:
            e = e[2][0]
        from .vflow import seq_len
        if T.is_app(e, 'adt:std::ops::RangeFrom') and len(e[2]) == 1 and T.is_app(e[2][0], 'f:start'):
            return T.app('index', x, T.app('range', e[2][0][2][0], seq_len(x)))
        if T.is_app(e, 'range') and len(e[2]) == 2:
            return T.app('index', x, e)
        if T.is_app(e, 'adt:std::ops::RangeTo') and len(e[2]) == 1 and T.is_app(e[2][0], 'f:end'):
            return T.app('index', x, T.app('range', T.ZERO, e[2][0][2][0]))
        if T.is_app(e, 'adt:std::ops::RangeFull'):
            return x
    return T.app('nd_slice', x, info)


@reg('SHAPE', 'burn::tensor::Tensor::from_data', 'burn::tensor::Tensor::from_floats')
def h_from_data(vf, node, fn, args):
    return tt(vf, args[0])


@reg('AUTODIFF', 'burn::tensor::Tensor::backward')
def h_backward(vf, node, fn, args):
    return T.app('backward', tt(vf, args[0]))


@reg('AUTODIFF', 'burn::tensor::Tensor::grad')
def h_grad(vf, node, fn, args):
    x, g = tt(vf, args[0]), tt(vf, args[1])
    if T.is_app(g, 'backward'):
        return T.app('grad', g[2][0], x)
    return T.app('grad_in', x, g)


@reg('ITER', 'burn::tensor::Tensor::inplace')
def h_inplace(vf, node, fn, args):
    r, c = args[0], vf.deref(args[1])
    if isinstance(r, Ref) and isinstance(c, Clos):
        cur = vf.read(r.place)
        vf.write(r.place, vf.apply_closure(c, [cur]))
        return T.UNIT
    return vf.default_call('inplace', args, node, fn)


ELEMENTWISE = ('sqrt', 'ln', 'exp', 'abs', 'inv', 'pow', 'powi', 'conj')


def _elementwise_body(body, bv):
    """the lambda body is arithmetic applied to the bound element only (polynomials, sqrt/ln/exp/abs, constants): mapping it over an
    array is the same arithmetic applied to the array (the term algebra already reads array arithmetic element-wise)"""
    for t in T.subterms(body):
        k = t[0]
        if k in ('num', 'poly') or t is bv:
            continue
        if k == 'sym':
            continue            # captured scalars (loop-invariant constants) broadcast
        if k == 'app' and t[1] in ELEMENTWISE:
            continue
        return False
    return True


@reg('SHAPE', 'ndarray::ArrayBase::mapv', 'ndarray::ArrayBase::map')
def h_mapv(vf, node, fn, args):
    c = vf.deref(args[1])
    x = tt(vf, args[0])
    bv = T.sym(vf.fresh('k#'))
    body = None
    if isinstance(c, Clos):
        body = tt(vf, vf.apply_closure(c, [bv]))
    else:
        r = vf.apply_fn_item(tt(vf, c), [bv], node)
        body = tt(vf, r) if r is not None else None
    if body is not None and _elementwise_body(body, bv):
        return T.subst(body, {bv: x})
    if isinstance(c, Clos):
        return T.app('mapv', x, lam_term(vf, c, 1))
    return T.app('mapv', x, tt(vf, c))


def lam_term(vf, clos, nargs, node=None):
    """closure (or function item) as a lambda term (bound variables named by height)"""
    ks = [T.sym(vf.fresh('k#')) for _ in range(nargs)]
    if isinstance(clos, Clos):
        body = tt(vf, vf.apply_closure(clos, ks))
    else:
        r_ = vf.apply_fn_item(tt(vf, clos), ks, node)
        if r_ is None:
            return tt(vf, clos)
        body = tt(vf, r_)
    from .vflow import binder_height
    for k in ks:
        h = binder_height(body) + 1
        body = T.app('lam%d' % h, T.subst(body, {k: T.sym('%%b%d' % h)}))
    return body


@reg('SHAPE', 'ndarray::ArrayBase::assign')
def h_assign(vf, node, fn, args):
    r = args[0]
    v = tt(vf, args[1])
    if isinstance(r, Ref):
        vf.write(r.place, v)
        return T.UNIT
    # assignment through a temporary view (e.g. out.row_mut(i).assign(&x)): handled by row_mut
    if isinstance(r, T.Tm) and T.is_app(r, 'rowview'):
        return T.UNIT
    vf.note('assign on non-place', node)
    return T.UNIT


@reg('SHAPE', 'ndarray::ArrayBase::row_mut', 'ndarray::ArrayBase::column_mut', 'ndarray::ArrayBase::index_axis_mut')
def h_row_mut(vf, node, fn, args):
    r = args[0]
    idx = [tt(vf, a) for a in args[1:]]
    name = fn.get('name', 'row_mut')
    if isinstance(r, Ref):
        return Ref(Place(r.place.root, r.place.path + (('idx', T.app(name, *idx)),)), True)
    return T.app(name, tt(vf, r), *idx)


# ------------------------------------------------------------------ indexing / length

@reg('ALIAS', 'std::ops::Index::index', 'std::ops::IndexMut::index_mut')
def h_index(vf, node, fn, args):
    r, i = args[0], tt(vf, args[1])
    if isinstance(r, Ref):
        return Ref(Place(r.place.root, r.place.path + (('idx', i),)), r.mut)
    return index_term(tt(vf, r), i)


def len_term(t):
    from .vflow import seq_len
    return seq_len(t)


@reg('SHAPE', 'std::vec::Vec::len', 'core::slice::len', 'ndarray::ArrayBase::len', 'std::collections::VecDeque::len')
def h_len(vf, node, fn, args):
    v = vf.deref(args[0])
    if isinstance(v, Seq):
        return v.n
    return len_term(tt(vf, v))


# ------------------------------------------------------------------ SEQ builders

@reg('SEQ', 'std::vec::Vec::new', 'std::vec::Vec::with_capacity')
def h_vec_new(vf, node, fn, args):
    return T.app('array')


@reg('SEQ', 'std::vec::Vec::resize')
def h_vec_resize(vf, node, fn, args):
    """v.resize(m, x): the first m elements of v followed by copies of x up to length m"""
    from .vflow import seq_len
    r = args[0]
    if isinstance(r, Ref):
        cur = tt(vf, vf.read(r.place))
        m, x = tt(vf, args[1]), tt(vf, vf.deref(args[2]))
        k = T.sym(vf.fresh('k#'))
        vf.write(r.place, mk_comp(m, k, T.ite(T.cmp('lt', k, seq_len(cur)), index_term(cur, k), x)))
        return T.UNIT
    return vf.default_call('std::vec::Vec::resize', args, node, fn)


@reg('SEQ', 'std::vec::Vec::clear')
def h_vec_clear(vf, node, fn, args):
    r = args[0]
    if isinstance(r, Ref):
        vf.write(r.place, T.app('array'))       # the emptied vector (capacity is not a value)
        return T.UNIT
    return vf.default_call('std::vec::Vec::clear', args, node, fn)


@reg('SEQ', 'core::slice::split_at', 'std::slice::split_at')
def h_split_at(vf, node, fn, args):
    """x.split_at(k) = (x[..k], x[k..])"""
    from .vflow import seq_len
    x = tt(vf, vf.deref(args[0]))
    k = tt(vf, args[1])
    return Tup([T.app('index', x, T.app('range', T.ZERO, k)), T.app('index', x, T.app('range', k, seq_len(x)))])


@reg('SEQ', 'std::vec::Vec::push')
def h_push(vf, node, fn, args):
    r, x = args[0], tt(vf, args[1])
    if isinstance(r, Ref):
        cur = tt(vf, vf.read(r.place))
        vf.write(r.place, push_term(cur, x))
        return T.UNIT
    return vf.default_call('push', args, node, fn)


def push_term(cur, x):
    if T.is_app(cur, 'array'):
        return T.app('array', *(cur[2] + (x,)))
    return T.app('push', cur, x)


@reg('SEQ', 'std::iter::Extend::extend')
def h_extend(vf, node, fn, args):
    r = args[0]
    s = force(vf, vf.as_seq(args[1], node), node)
    if isinstance(r, Ref):
        cur = tt(vf, vf.read(r.place))
        vf.write(r.place, T.app('concat', cur, s))
        return T.UNIT
    return vf.default_call('extend', args, node, fn)


@reg('SEQ', 'std::vec::Vec::remove')
def h_remove(vf, node, fn, args):
    r = args[0]
    if isinstance(r, Ref):
        cur = tt(vf, vf.read(r.place))
        i = tt(vf, args[1])
        vf.write(r.place, T.app('removed', cur, i))
        return index_term(cur, i)
    return vf.default_call('remove', args, node, fn)


@reg('SEQ', 'core::slice::sort', 'core::slice::sort_unstable')
def h_sort(vf, node, fn, args):
    r = args[0]
    if isinstance(r, Ref):
        vf.write(r.place, T.app('sorted', tt(vf, vf.read(r.place))))
    return T.UNIT


@reg('SEQ', 'core::slice::sort_by', 'core::slice::sort_unstable_by')
def h_sort_by(vf, node, fn, args):
    r, c = args[0], vf.deref(args[1])
    cmpt = lam_term(vf, c, 2, node)           # a closure or a function item (`sort_by(descending)`)
    if isinstance(r, Ref):
        vf.write(r.place, T.app('sorted_by', tt(vf, vf.read(r.place)), cmpt))
    vf.log('sort_by', [cmpt], node)
    return T.UNIT


# ------------------------------------------------------------------ ITER

@reg('ITER', 'std::iter::IntoIterator::into_iter', 'rayon::iter::IntoParallelIterator::into_par_iter',
     'core::slice::iter', 'core::slice::iter_mut', 'std::vec::Vec::iter', 'ndarray::ArrayBase::iter',
     'ndarray::ArrayBase::iter_mut', 'rayon::iter::IntoParallelRefMutIterator::par_iter_mut',
     'rayon::iter::IntoParallelRefIterator::par_iter', 'burn::tensor::TensorData::iter',
     'std::iter::Iterator::by_ref', 'std::vec::Vec::into_iter')
def h_iter(vf, node, fn, args):
    return vf.as_seq(args[0], node)


@reg('ITER', 'ndarray::ArrayBase::rows_mut', 'ndarray::ArrayBase::outer_iter_mut')
def h_rows_mut(vf, node, fn, args):
    """rows of a two-dimensional array, mutably: row i is the place `x.row_mut(i)`"""
    r = args[0]
    ty = str((node.get('args') or [{}])[0].get('ty', ''))
    if isinstance(r, Ref) and '[usize; 2]' in ty:
        base = tt(vf, r)
        n = index_term(T.app('shape', base), T.ZERO)
        return Seq(n, lambda i: Ref(Place(r.place.root, r.place.path + (('idx', T.app('row_mut', i)),)), True), 'rows_mut', src=base)
    return vf.default_call(callee_key(fn), args, node, fn)


@reg('ITER', 'ndarray::ArrayBase::axis_iter', 'ndarray::ArrayBase::axis_iter_mut', 'ndarray::ArrayBase::rows',
     'ndarray::ArrayBase::outer_iter', 'ndarray::ArrayBase::columns')
def h_axis_iter(vf, node, fn, args):
    name = fn.get('name')
    r = args[0]
    ax = [tt(vf, a) for a in args[1:]]
    base = tt(vf, r)
    if name == 'outer_iter':
        name, ax = 'axis_iter', [_axis(0)]          # outer_iter() is axis_iter(Axis(0))
    if name in ('axis_iter', 'axis_iter_mut'):
        axn = ax[0][2][0][2][0] if ax and T.is_app(ax[0], 'adt:ndarray::Axis') and ax[0][2] and T.is_app(ax[0][2][0], 'f:0') else None
        n = index_term(T.app('shape', base), axn) if axn is not None and T.is_num(axn) else T.app('len_of', base, *ax)
        if name == 'axis_iter_mut' and isinstance(r, Ref):
            return Seq(n, lambda i: Ref(Place(r.place.root, r.place.path + (('idx', T.app('axis', *(ax + [i]))),)), True), 'axis_iter_mut', src=base)
        return Seq(n, lambda i: T.app('index_axis', base, *(ax + [i])), 'axis_iter', src=base)
    n = T.app('n_' + name, base)
    return Seq(n, lambda i: T.app(name + '_at', base, i), name, src=base)


@reg('ITER', 'ndarray::ArrayBase::windows_with_stride')
def h_windows(vf, node, fn, args):
    base, w, s = tt(vf, args[0]), tt(vf, args[1]), tt(vf, args[2])
    n = T.app('n_windows', base, w, s)
    return Seq(n, lambda i: T.app('window', base, w, s, i), 'windows_with_stride', src=base)


@reg('ITER', 'std::iter::Iterator::map', 'rayon::iter::ParallelIterator::map')
def h_map(vf, node, fn, args):
    s = vf.as_seq(args[0], node)
    c = vf.deref(args[1])
    if isinstance(c, Clos):
        return Seq(s.n, lambda i: vf.apply_closure(c, [s.elem(i)]), 'map(%s)' % s.desc, src=s.src)
    ct = tt(vf, c)

    def elem(i):
        r = vf.apply_fn_item(ct, [s.elem(i)], node)
        return r if r is not None else T.app('apply', ct, tt(vf, s.elem(i)))
    return Seq(s.n, elem, 'map(%s)' % s.desc, src=s.src)


@reg('ITER', 'std::iter::Iterator::enumerate', 'rayon::iter::IndexedParallelIterator::enumerate')
def h_enumerate(vf, node, fn, args):
    s = vf.as_seq(args[0], node)
    return Seq(s.n, lambda i: Tup([i, s.elem(i)]), 'enumerate(%s)' % s.desc, src=s.src)


def min_term(a, b):
    if a == b:
        return a
    if a == T.sym('inf'):
        return b
    if b == T.sym('inf'):
        return a
    if T.is_app(a, 'monus') and a[2][0] == b:
        return a                # a saturating difference never exceeds its minuend
    if T.is_app(b, 'monus') and b[2][0] == a:
        return b
    return T.app('min', *sorted([a, b], key=T.key))


@reg('ITER', 'std::iter::Iterator::zip', 'rayon::iter::IndexedParallelIterator::zip', 'std::iter::zip', 'core::iter::zip')
def h_zip(vf, node, fn, args):
    a = vf.as_seq(args[0], node)
    b = vf.as_seq(args[1], node)
    n = a.n if a.n == b.n or b.n == T.sym('inf') else b.n if a.n == T.sym('inf') else a.n if known_le(vf, a.n, b.n) else b.n if known_le(vf, b.n, a.n) else min_term(a.n, b.n)
    return Seq(n, lambda i: Tup([a.elem(i), b.elem(i)]), 'zip(%s,%s)' % (a.desc, b.desc), src=a.src)


def unsigned_atom(a):
    """a symbol (the caller knows its type), a length, or an entry of a shape"""
    if a[0] == 'sym' or T.is_app(a, 'len'):
        return True
    return T.is_app(a, 'index') and (T.is_app(a[2][0], 'shape') or T.is_app(a[2][0], 'dims'))


def nonneg_usize_poly(t):
    """a polynomial all of whose coefficients are positive, over atoms that are unsigned quantities (the caller knows the type)"""
    if T.is_num(t):
        return T.numval(t) >= 0
    if unsigned_atom(t):
        return True
    if t[0] != 'poly':
        return False
    return all(c[0] > 0 for m, c in t[1]) and all(unsigned_atom(a) for m, c in t[1] for a, e in m)


def umin(a, b):
    """min of two unsigned quantities: decided when the difference is visibly non-negative"""
    if nonneg_usize_poly(T.sub(b, a)):
        return a
    if nonneg_usize_poly(T.sub(a, b)):
        return b
    return min_term(a, b)


def loop_var_bounds(vf):
    """iteration symbols of the counted loops being evaluated, with their trip counts: it_j < n_j"""
    live = set(vf.loop_stack)
    return {ls.var: ls.n for ls in vf.loops if ls.uid in live and ls.var is not None and isinstance(ls.n, T.Tm) and ls.n != T.sym('inf')}


def known_le(vf, a, b):
    """a <= b for unsigned quantities, using 0 <= it_j <= n_j - 1 for the live counted loops: b - a is rewritten with each bounded
    variable either kept (>= 0) or replaced by n_j - 1 - s_j (s_j >= 0), and accepted when some choice leaves visibly non-negative terms"""
    d = T.sub(b, a)
    if nonneg_usize_poly(d):
        return True
    bounds = [(v, n) for v, n in loop_var_bounds(vf).items() if any(x is v for x in T.subterms(d))]
    if not bounds or len(bounds) > 3:
        return False
    for mask in range(1, 1 << len(bounds)):
        sub = {}
        for j, (v, n) in enumerate(bounds):
            if mask >> j & 1:
                sub[v] = T.sub(T.sub(n, T.ONE), T.sym('slack:' + T.show(v)))
        if nonneg_usize_poly(T.subst(d, sub)):
            return True
    return False


def monus(vf, a, b):
    """saturating a - b of unsigned quantities, decided where the order is known"""
    if known_le(vf, b, a):
        return T.sub(a, b)
    if known_le(vf, a, b):
        return T.ZERO
    return T.app('monus', a, b)


@reg('ITER', 'std::iter::Iterator::skip', 'rayon::iter::IndexedParallelIterator::skip')
def h_skip(vf, node, fn, args):
    """iter.skip(k): the elements from position k on"""
    s = vf.as_seq(args[0], node)
    k = tt(vf, args[1])
    n = s.n if s.n == T.sym('inf') else monus(vf, s.n, k)
    out = Seq(n, lambda i: s.elem(T.add(i, k)), 'skip(%s)' % s.desc, src=s.src)
    if getattr(s, 'stop', None) is not None:
        out.stop = s.stop
    return out


@reg('ITER', 'std::iter::Iterator::by_ref')
def h_by_ref(vf, node, fn, args):
    return args[0]          # `&mut iterator`: the place itself; adaptors that consume through it write the remainder back


@reg('ITER', 'std::iter::Iterator::take')
def h_take(vf, node, fn, args):
    k = tt(vf, args[1])
    r = args[0]
    if isinstance(r, Ref):
        cur = vf.read(r.place)
        ct = cur if isinstance(cur, T.Tm) else None
        if ct is not None and T.is_app(ct, 'range') and len(ct[2]) == 2:
            # range.by_ref().take(k): yields the first min(k, len) elements and leaves the rest in the range
            lo, hi = ct[2]
            m = umin(k, T.sub(hi, lo))
            vf.write(r.place, T.app('range', T.add(lo, m), hi))
            return Seq(m, lambda i: T.add(lo, i), 'take(range)', src=None)
        if isinstance(cur, Seq) and getattr(cur, 'stop', None) is None:
            # seq.by_ref().take(k): the next min(k, remaining) elements from the iterator's position, which advances past them
            posp = Place(('cursor', r.place.root), r.place.path)
            pos = tt(vf, vf.read(posp))
            left = cur.n if cur.n == T.sym('inf') else monus(vf, cur.n, pos)
            m = k if left == T.sym('inf') else (k if known_le(vf, k, left) else left if known_le(vf, left, k) else min_term(k, left))
            # (the position is advanced by k even when fewer are left: past the end there is nothing to observe either way, and an
            # invariant step keeps the position a closed-form counter)
            vf.write(posp, T.add(pos, k))
            return Seq(m, lambda i: cur.elem(T.add(pos, i)), 'take(cursor)', src=cur.src)
    s = vf.as_seq(args[0], node)
    return Seq(min_term(s.n, k), s.elem, 'take(%s)' % s.desc, src=s.src)


@reg('ITER', 'std::iter::Iterator::rev')
def h_rev(vf, node, fn, args):
    s = vf.as_seq(args[0], node)
    return Seq(s.n, lambda i: s.elem(T.sub(T.sub(s.n, T.ONE), i)), 'rev(%s)' % s.desc, src=s.src)


@reg('ITER', 'std::iter::Iterator::chain')
def h_chain(vf, node, fn, args):
    a = vf.as_seq(args[0], node)
    b = vf.as_seq(args[1], node)

    def elem(i):
        return T.ite(T.cmp('lt', i, a.n), tt(vf, a.elem(i)), tt(vf, b.elem(T.sub(i, a.n))))
    return Seq(T.add(a.n, b.n), elem, 'chain(%s,%s)' % (a.desc, b.desc), src=a.src)


@reg('ITER', 'std::iter::Iterator::flatten', 'rayon::iter::ParallelIterator::flatten_iter', 'rayon::iter::ParallelIterator::flatten')
def h_flatten(vf, node, fn, args):
    s = vf.as_seq(args[0], node)
    inner = force(vf, s, node)
    return Seq(T.app('len', T.app('flatten', inner)), lambda i: index_term(T.app('flatten', inner), i), 'flatten', src=T.app('flatten', inner))


def force(vf, seq, node, kind='forced'):
    """evaluate every element of a (possibly effectful) lazy sequence: runs as a loop"""
    holder = {}

    def body(elem):
        holder['v'] = elem
        return elem

    # the element function itself performs the effects (map closures are applied inside)
    ls_before = len(vf.loops)
    vf.loop_over(seq, body, node, kind=kind)
    ls = vf.loops[ls_before]
    res = ls.result
    rt = tt(vf, res) if res is not None else T.UNIT
    ls.result_term = rt
    pure = not ls.lh and not any(getattr(e, 'fn', None) is None or any(r and r[1] for r in (getattr(e, 'refs', None) or [])) for e in ls.events)
    ls.pure = pure
    comp = mk_comp(seq.n, ls.var, rt)
    if not pure:
        comp = T.app('eff', comp, T.sym('loop%d' % ls.uid))
    else:
        # pure: drop the loop summary's bookkeeping (still listed for evidence)
        pass
    if T.is_app(seq.src, 'flatten') or False:
        pass
    return comp


@reg('ITER', 'std::iter::Iterator::collect', 'rayon::iter::ParallelIterator::collect')
def h_collect(vf, node, fn, args):
    v = vf.deref(args[0])
    if isinstance(v, Seq):
        if v.desc == 'flatten':
            return v.src
        return force(vf, v, node)
    return tt(vf, v)


@reg('ITER', 'std::iter::Iterator::unzip', 'rayon::iter::ParallelIterator::unzip')
def h_unzip(vf, node, fn, args):
    """iter of pairs -> pair of collections, element order kept: unzip([(a_k, b_k)]) = ([a_k], [b_k])"""
    v = vf.deref(args[0])
    if not isinstance(v, Seq):
        return vf.default_call('std::iter::Iterator::unzip', args, node, fn)
    before = len(vf.loops)
    force(vf, v, node)
    ls = vf.loops[before]
    rt = ls.result_term
    parts = []
    for j in (0, 1):
        c = mk_comp(v.n, ls.var, T.proj(rt, j))
        if not getattr(ls, 'pure', False):
            c = T.app('eff', c, T.sym('loop%d' % ls.uid))
        parts.append(c)
    return Tup(parts)


@reg('ITER', 'std::iter::Iterator::sum', 'rayon::iter::ParallelIterator::sum')
def h_sum(vf, node, fn, args):
    v = vf.deref(args[0])
    if isinstance(v, Seq):
        return T.app('sum', force(vf, v, node))
    return T.app('sum', tt(vf, v))


@reg('ITER', 'std::iter::Iterator::for_each', 'rayon::iter::ParallelIterator::for_each')
def h_for_each(vf, node, fn, args):
    s = vf.as_seq(args[0], node)
    c = vf.deref(args[1])
    if isinstance(c, Clos):
        vf.loop_over(s, lambda elem: vf.apply_closure(c, [elem]), node, kind='for')
        return T.UNIT
    return vf.default_call('for_each', args, node, fn)


@reg('ITER', 'std::iter::Iterator::fold', 'ndarray::Zip::fold')
def h_fold(vf, node, fn, args):
    s = vf.as_seq(args[0], node)
    init = args[1]
    c = vf.deref(args[2])
    if not isinstance(c, Clos):
        return vf.default_call('fold', args, node, fn)
    acc = Place(('acc', vf.fresh('acc')), ())
    vf.store[(acc.root, ())] = init if not isinstance(init, Ref) else vf.read(init.place)
    zipn = getattr(s, 'zip_arity', None)

    def body(elem):
        cur = vf.read(acc)
        if zipn:
            items = elem.items if isinstance(elem, Tup) else [elem]
            r = vf.apply_closure(c, [cur] + list(items))
        else:
            r = vf.apply_closure(c, [cur, elem])
        vf.write(acc, r)
        return r

    nloops = len(vf.loops)
    # the accumulator must be visible as "existing before the loop"
    vf.loop_over(s, body, node, kind='fold')
    ls = vf.loops[nloops]
    ls.acc_key = (acc.root, ())
    return vf.close_accumulators(ls, only=(acc.root, ()))


@reg('ITER', 'ndarray::Zip::from')
def h_zip_from(vf, node, fn, args):
    s = vf.as_seq(args[0], node)
    z = Seq(s.n, lambda i: Tup([s.elem(i)]), 'Zip', src=s.src)
    z.zip_arity = 1
    return z


@reg('ITER', 'ndarray::Zip::and')
def h_zip_and(vf, node, fn, args):
    a = vf.deref(args[0])
    b = vf.as_seq(args[1], node)
    if isinstance(a, Seq):
        z = Seq(a.n, lambda i: Tup(list(a.elem(i).items) + [b.elem(i)]), 'Zip', src=a.src)
        z.zip_arity = getattr(a, 'zip_arity', 1) + 1
        return z
    return vf.default_call('zip_and', args, node, fn)


@reg('ITER', 'std::iter::Iterator::next')
def h_next(vf, node, fn, args):
    """explicit `it.next()` on an iterator held in a variable: the element at the iterator's position (Some iff one is left), and
    the position advances by one.  A range keeps its position in the range term itself; any other sequence in a hidden integer
    place next to the variable (so a hand-advanced iterator is an ordinary counter for the loop summaries)."""
    r = args[0]
    if isinstance(r, Ref):
        cur = vf.read(r.place)
        ct = cur if isinstance(cur, T.Tm) else None
        if ct is not None and T.is_app(ct, 'range') and len(ct[2]) == 2:
            lo, hi = ct[2]
            vf.write(r.place, T.app('range', T.add(lo, T.ONE), hi))
            return T.app('opt', T.cmp('lt', lo, hi), lo)
        if isinstance(cur, Seq) and getattr(cur, 'stop', None) is None:
            posp = Place(('cursor', r.place.root), r.place.path)
            pos = tt(vf, vf.read(posp))
            vf.write(posp, T.add(pos, T.ONE))
            cond = T.TRUE if cur.n == T.sym('inf') else T.cmp('lt', pos, cur.n)
            return Opt(cond, cur.elem(pos))
    return vf.default_call('iter_next', args, node, fn)


# ------------------------------------------------------------------ RNG (draws are events + terms)

def _draw(kind):
    def h(vf, node, fn, args):
        gen = args[0]
        targs = [tt(vf, a) for a in args]
        gargs = fn.get('args', [])
        op = '%s<%s>' % (kind, ','.join(gargs[1:])) if len(gargs) > 1 else kind
        res = T.app(op, *targs)
        gen_place = gen.place if isinstance(gen, Ref) else None
        if isinstance(gen, Ref) and gen.mut:
            vf.write(gen.place, T.app('post0', res))
        vf.log('draw', targs, node, res=res, draw_kind=kind, gen_place=gen_place, gargs=gargs)
        return res
    return h


reg('DRAW', 'rand::Rng::random')(_draw('rng_random'))
reg('DRAW', 'rand::Rng::random_range')(_draw('rng_random_range'))
reg('DRAW', 'rand::Rng::random_bool')(_draw('rng_random_bool'))
reg('DRAW', 'rand::Rng::sample')(_draw('rng_sample'))
reg('DRAW', 'rand::Rng::fill')(_draw('rng_fill'))


@reg('DRAW', 'rand_distr::Distribution::sample', 'rand::distr::Distribution::sample')
def h_dist_sample(vf, node, fn, args):
    dist, gen = args[0], args[1]
    targs = [tt(vf, gen), tt(vf, dist)]
    res = T.app('rng_sample<%s>' % ','.join(fn.get('args', [])[1:2]), *targs)
    if isinstance(gen, Ref) and gen.mut:
        vf.write(gen.place, T.app('post0', res))
    vf.log('draw', targs, node, res=res, draw_kind='dist_sample', gen_place=gen.place if isinstance(gen, Ref) else None, gargs=fn.get('args', []))
    return res


def _sample_iter(order):
    def h(vf, node, fn, args):
        gen, dist = (args[0], args[1]) if order == 'rng_first' else (args[1], args[0])
        g0 = tt(vf, gen)
        d = tt(vf, dist)
        res = T.app('rng_sample_iter', g0, d)
        if isinstance(gen, Ref) and gen.mut:
            vf.write(gen.place, T.app('post0', res))
        vf.log('draw', [g0, d], node, res=res, draw_kind='sample_iter', gen_place=gen.place if isinstance(gen, Ref) else None, gargs=fn.get('args', []))
        return Seq(T.sym('inf'), lambda i: T.app('nth', res, i), 'sample_iter', src=res)
    return h


reg('DRAW', 'rand::Rng::sample_iter')(_sample_iter('rng_first'))
reg('DRAW', 'rand_distr::Distribution::sample_iter', 'rand::distr::Distribution::sample_iter')(_sample_iter('dist_first'))


@reg('SEED', 'rand::SeedableRng::seed_from_u64')
def h_seed(vf, node, fn, args):
    s = tt(vf, args[0])
    res = T.app('seed_from_u64', s)
    vf.log('seed', [s], node, res=res)
    return res


@reg('ENTROPY', 'rand::SeedableRng::from_os_rng', 'rand::SeedableRng::from_entropy', 'rand::SeedableRng::try_from_os_rng')
def h_os_rng(vf, node, fn, args):
    vf.uid += 1
    res = T.app('os_rng#%d' % vf.uid)
    vf.log('entropy', [], node, res=res)
    return res


@reg('THREAD_RNG', 'rand::rng', 'rand::thread_rng')
def h_thread_rng(vf, node, fn, args):
    vf.uid += 1
    res = T.app('thread_rng#%d' % vf.uid)
    vf.log('thread_rng', [], node, res=res)
    return res


@reg('GLOBAL_RNG', 'burn::tensor::Tensor::random', 'burn::tensor::Tensor::random_like')
def h_burn_random(vf, node, fn, args):
    vf.uid += 1
    targs = [tt(vf, a) for a in args]
    res = T.app('burn_random#%d' % vf.uid, *targs[:2])
    vf.log('global_draw', targs, node, res=res)
    return res


@reg('GLOBAL_RNG', 'burn::tensor::backend::Backend::seed')
def h_backend_seed(vf, node, fn, args):
    vf.log('global_seed', [tt(vf, a) for a in args], node)
    return T.UNIT


reg('DRAW', 'rand_distr::Normal::new')(_func('Normal'))

# ------------------------------------------------------------------ threads / closures run in place

@reg('CONC', 'std::sync::mpsc::channel', 'std::sync::mpsc::sync_channel')
def h_channel(vf, node, fn, args):
    # every call creates a fresh channel: (sender, receiver) of the same resource
    vf.uid += 1
    res = T.app('channel#%d' % vf.uid)
    vf.log('channel', [], node, res=res)
    return T.tup(T.app('tx', res), T.app('rx', res))


@reg('CONC', 'std::thread::scope')
def h_scope(vf, node, fn, args):
    c = vf.deref(args[0])
    if isinstance(c, Clos):
        return vf.apply_closure(c, [T.sym('scope')])
    return vf.default_call('thread_scope', args, node, fn)


@reg('CONC', 'std::thread::Scope::spawn')
def h_scope_spawn(vf, node, fn, args):
    c = vf.deref(args[1])
    if isinstance(c, Clos):
        vf.log('spawn_scoped', [], node)
        return vf.apply_closure(c, [])
    return vf.default_call('scope_spawn', args, node, fn)


@reg('CONC', 'std::thread::spawn')
def h_spawn(vf, node, fn, args):
    c = vf.deref(args[0])
    if isinstance(c, Clos):
        vf.log('spawn', [], node)
        vf.owner_stack.append((vf.owner() or '') + '{spawned}')
        r = vf.apply_closure(c, [])
        vf.owner_stack.pop()
        return r
    return vf.default_call('thread_spawn', args, node, fn)


@reg('CONC', 'std::thread::JoinHandle::join', 'std::thread::ScopedJoinHandle::join')
def h_join(vf, node, fn, args):
    return args[0]


# ------------------------------------------------------------------ INERT

def _inert(vf, node, fn, args):
    return T.sym('inert')


for _k in ['std::fmt::Arguments::new', 'std::fmt::Arguments::from_str', 'std::fmt::Arguments::new_const', 'std::fmt::Arguments::new_v1',
           'core::fmt::rt::Argument::new_display', 'core::fmt::rt::Argument::new_debug',
           'std::io::_print', 'std::io::_eprint', 'std::fmt::Formatter::write_fmt',
           'indicatif::MultiProgress::add', 'indicatif::MultiProgress::new', 'indicatif::ProgressBar::finish_with_message',
           'indicatif::ProgressBar::inc', 'indicatif::ProgressBar::new', 'indicatif::ProgressBar::set_message',
           'indicatif::ProgressBar::set_position', 'indicatif::ProgressBar::set_prefix', 'indicatif::ProgressBar::set_style',
           'indicatif::ProgressStyle::default_bar', 'indicatif::ProgressStyle::progress_chars', 'indicatif::ProgressStyle::template',
           'std::time::Duration::from_millis', 'std::time::Duration::from_secs', 'std::time::Instant::duration_since',
           'ndarray::SliceNextDim::next_in_dim', 'ndarray::SliceNextDim::next_out_dim',
           'rustfft::FftPlanner::new', 'core::panicking::assert_failed', 'std::thread::sleep']:
    reg('INERT', _k)(_inert)


@reg('INERT', 'std::string::ToString::to_string')
def h_to_string(vf, node, fn, args):
    return T.app('to_string', tt(vf, args[0]))


@reg('INERT', 'std::time::Instant::now')
def h_now(vf, node, fn, args):
    vf.uid += 1
    return T.sym('now#%d' % vf.uid)


def h_fmtarg(vf, node, fn, args):
    return T.app('fmtarg', tt(vf, args[0]))


def h_arguments_new(vf, node, fn, args):
    """core::fmt::Arguments::new(template bytes, &[Argument]): decode the length-prefixed template"""
    import re as _re
    tpl = tt(vf, args[0])
    arr = tt(vf, args[1]) if len(args) > 1 else T.app('array')
    fargs = [a[2][0] if T.is_app(a, 'fmtarg') else a for a in (arr[2] if T.is_app(arr, 'array') else ())]
    m = _re.search(r'ByteStr\(\[([0-9, ]*)\]', tpl[1]) if tpl[0] == 'sym' else None
    if not m:
        return T.app('format', tpl, *fargs)
    bs = [int(x) for x in m.group(1).split(',') if x.strip()]
    out, i, ai = [], 0, 0
    while i < len(bs):
        b = bs[i]
        if b == 0:
            break
        if b < 0x80:
            out.append(T.sym('"' + bytes(bs[i + 1:i + 1 + b]).decode('utf-8', 'replace') + '"'))
            i += 1 + b
        else:
            if b != 0xC0:
                out.append(T.sym('fmtspec:%d' % b))
            out.append(fargs[ai] if ai < len(fargs) else T.sym('?arg'))
            ai += 1
            i += 1
    return T.app('format', *out)


def h_format(vf, node, fn, args):
    return tt(vf, args[0])


def h_from_str(vf, node, fn, args):
    return T.app('format', tt(vf, args[0]))


TABLE['std::fmt::format'] = h_format
TABLE['core::fmt::rt::Argument::new_display'] = h_fmtarg
TABLE['core::fmt::rt::Argument::new_debug'] = h_fmtarg
TABLE['std::fmt::Arguments::new'] = h_arguments_new
TABLE['std::fmt::Arguments::from_str'] = h_from_str
for _k in ('std::fmt::format', 'core::fmt::rt::Argument::new_display', 'core::fmt::rt::Argument::new_debug', 'std::fmt::Arguments::new', 'std::fmt::Arguments::from_str'):
    CLASS[_k] = 'FMT'
    TABLE[_k].lazy = False


# ---------------------------------------------------------------- modelled options and std::mem helpers

@reg('OPTION', 'bool::then', 'core::bool::then', 'std::primitive::bool::then')
def h_bool_then(vf, node, fn, args):
    """c.then(|| v): Some(v) iff c, the closure evaluated only under c"""
    c = tt(vf, vf.deref(args[0]))
    f = vf.deref(args[1])
    if not isinstance(f, Clos):
        return vf.default_call('bool::then', args, node, fn)
    vf.pc.append(c)
    try:
        v = vf.apply_closure(f, [])
    finally:
        vf.pc.pop()
    return T.app('opt', c, tt(vf, v))


@reg('OPTION', 'bool::then_some', 'core::bool::then_some', 'std::primitive::bool::then_some')
def h_bool_then_some(vf, node, fn, args):
    return T.app('opt', tt(vf, vf.deref(args[0])), tt(vf, vf.deref(args[1])))


@reg('OPTION', 'std::option::Option::unwrap_or', 'std::option::Option::unwrap_or_default')
def h_unwrap_or(vf, node, fn, args):
    o = tt(vf, vf.deref(args[0]))
    if T.is_app(o, 'opt'):
        d = tt(vf, vf.deref(args[1])) if len(args) > 1 else T.app('default')
        return T.ite(o[2][0], o[2][1], d)
    return vf.default_call(callee_key(fn) if fn else 'std::option::Option::unwrap_or', args, node, fn)


@reg('OPTION', 'std::option::Option::unwrap_or_else', 'std::option::Option::map_or', 'std::option::Option::map_or_else', 'std::option::Option::map')
def h_opt_combinators(vf, node, fn, args):
    key = callee_key(fn)
    o = tt(vf, vf.deref(args[0]))
    if not T.is_app(o, 'opt'):
        return vf.default_call(key, args, node, fn)
    cond, pay = o[2][0], o[2][1]

    def call(f, xs, under):
        f = vf.deref(f)
        vf.pc.append(under)
        try:
            if not isinstance(f, Clos):
                r_ = vf.apply_fn_item(tt(vf, f), xs, node)          # a function item in place of a closure (`unwrap_or_else(T::neg_infinity)`)
                return tt(vf, r_) if r_ is not None else None
            return tt(vf, vf.apply_closure(f, xs))
        finally:
            vf.pc.pop()
    if key.endswith('::map'):
        r = call(args[1], [pay], cond)
        return T.app('opt', cond, r) if r is not None else vf.default_call(key, args, node, fn)
    if key.endswith('::unwrap_or_else'):
        r = call(args[1], [], T.lnot(cond))
        return T.ite(cond, pay, r) if r is not None else vf.default_call(key, args, node, fn)
    if key.endswith('::map_or'):
        r = call(args[2], [pay], cond)
        return T.ite(cond, r, tt(vf, vf.deref(args[1]))) if r is not None else vf.default_call(key, args, node, fn)
    r1, r2 = call(args[2], [pay], cond), call(args[1], [], T.lnot(cond))
    return T.ite(cond, r1, r2) if r1 is not None and r2 is not None else vf.default_call(key, args, node, fn)


@reg('MEM', 'std::mem::take')
def h_mem_take(vf, node, fn, args):
    """mem::take(&mut x): returns the old value of x and leaves Default::default() there"""
    r = args[0]
    if isinstance(r, Ref):
        old = vf.read(r.place)
        vf.write(r.place, T.app('default'))
        return old
    return vf.default_call('std::mem::take', args, node, fn)


@reg('MEM', 'std::mem::replace')
def h_mem_replace(vf, node, fn, args):
    r = args[0]
    if isinstance(r, Ref):
        old = vf.read(r.place)
        vf.write(r.place, vf.deref(args[1]))
        return old
    return vf.default_call('std::mem::replace', args, node, fn)


@reg('MEM', 'std::mem::swap')
def h_mem_swap(vf, node, fn, args):
    a, b = args[0], args[1]
    if isinstance(a, Ref) and isinstance(b, Ref):
        va, vb = vf.read(a.place), vf.read(b.place)
        vf.write(a.place, vb)
        vf.write(b.place, va)
        return T.UNIT
    return vf.default_call('std::mem::swap', args, node, fn)


@reg('SHAPE', 'core::slice::repeat', 'std::slice::repeat')
def h_slice_repeat(vf, node, fn, args):
    """[x].repeat(k): k copies of x (a one-element slice repeated); other lengths stay symbolic"""
    base = tt(vf, vf.deref(args[0]))
    k = tt(vf, args[1])
    if T.is_app(base, 'array') and len(base[2]) == 1:
        x = base[2][0]
        return Seq(k, lambda i: x, 'repeat', src=None)
    return T.app('slice_repeat', base, k)


@reg('ITER', 'std::iter::repeat', 'core::iter::repeat')
def h_iter_repeat(vf, node, fn, args):
    x = tt(vf, vf.deref(args[0]))
    return Seq(T.sym('inf'), lambda i: x, 'repeat', src=None)


@reg('ITER', 'std::iter::repeat_n', 'core::iter::repeat_n')
def h_iter_repeat_n(vf, node, fn, args):
    x = tt(vf, vf.deref(args[0]))
    return Seq(tt(vf, args[1]), lambda i: x, 'repeat', src=None)


@reg('ITER', 'std::iter::repeat_with', 'core::iter::repeat_with')
def h_iter_repeat_with(vf, node, fn, args):
    """repeat_with(f): f() per element, applied lazily in order (same as `(0..).map(|_| f())`)"""
    c = vf.deref(args[0])
    if isinstance(c, Clos):
        return Seq(T.sym('inf'), lambda i: vf.apply_closure(c, []), 'repeat_with', src=None)
    ct = tt(vf, c)

    def elem(i):
        r = vf.apply_fn_item(ct, [], node)
        return r if r is not None else T.app('apply', ct)
    return Seq(T.sym('inf'), elem, 'repeat_with', src=None)


# ---------------------------------------------------------------- ndarray shape / lane vocabulary: one canonical spelling
# shape()[k], dim().k, nrows(), ncols(), len_of(Axis(k)), raw_dim()  ->  index(shape(x), k) / shape(x)
# column(j), row(i)                                                 ->  index_axis(x, Axis(1), j) / index_axis(x, Axis(0), i)

def _axis(k):
    return T.app('adt:ndarray::Axis', T.app('f:0', T.num(k)))


@reg('SHAPE', 'ndarray::ArrayBase::dim')
def h_nd_dim(vf, node, fn, args):
    x = tt(vf, vf.deref(args[0]))
    ty = str(node.get('ty', ''))
    if ty.strip() == 'usize':
        return index_term(T.app('shape', x), T.num(0))
    if ty.startswith('(') and ty.endswith(')'):
        rank = len([p_ for p_ in ty[1:-1].split(',') if p_.strip()])
        return Tup([index_term(T.app('shape', x), T.num(k)) for k in range(rank)])
    return T.app('dim', x)


@reg('SHAPE', 'ndarray::ArrayBase::nrows')
def h_nd_nrows(vf, node, fn, args):
    return index_term(T.app('shape', tt(vf, vf.deref(args[0]))), T.num(0))


@reg('SHAPE', 'ndarray::ArrayBase::ncols')
def h_nd_ncols(vf, node, fn, args):
    return index_term(T.app('shape', tt(vf, vf.deref(args[0]))), T.num(1))


@reg('SHAPE', 'ndarray::ArrayBase::raw_dim')
def h_nd_raw_dim(vf, node, fn, args):
    return T.app('shape', tt(vf, vf.deref(args[0])))


@reg('SHAPE', 'ndarray::ArrayBase::column')
def h_nd_column(vf, node, fn, args):
    return T.app('index_axis', tt(vf, vf.deref(args[0])), _axis(1), tt(vf, args[1]))


@reg('SHAPE', 'ndarray::ArrayBase::row')
def h_nd_row(vf, node, fn, args):
    return T.app('index_axis', tt(vf, vf.deref(args[0])), _axis(0), tt(vf, args[1]))


@reg('SHAPE', 'ndarray::ArrayBase::len_of')
def h_nd_len_of(vf, node, fn, args):
    x = tt(vf, vf.deref(args[0]))
    a = tt(vf, args[1])
    axn = a[2][0][2][0] if T.is_app(a, 'adt:ndarray::Axis') and a[2] and T.is_app(a[2][0], 'f:0') else None
    return index_term(T.app('shape', x), axn) if axn is not None and T.is_num(axn) else T.app('len_of', x, a)


@reg('ITER', 'std::iter::Iterator::take_while')
def h_take_while(vf, node, fn, args):
    """prefix of the sequence up to (excluding) the first element that fails the predicate: same elements, same trip count
    bound, plus an exit test in front of every iteration"""
    s = vf.as_seq(args[0], node)
    c = vf.deref(args[1])
    if not isinstance(c, Clos) or getattr(s, 'stop', None) is not None:
        return vf.default_call('std::iter::Iterator::take_while', args, node, fn)
    out = Seq(s.n, s.elem, 'take_while(%s)' % s.desc, src=s.src)
    out.stop = lambda elem: tt(vf, vf.apply_closure(c, [elem]))
    return out


@reg('SHAPE', 'ndarray::aview1')
def h_aview1(vf, node, fn, args):
    """aview1(slice) is ArrayView1::from_shape(slice.len(), slice) (which cannot fail)"""
    x = tt(vf, vf.deref(args[0]))
    return T.app('from_shape', T.app('len', x), x)


@reg('SHAPE', 'ndarray::ArrayBase::reversed_axes')
def h_reversed_axes(vf, node, fn, args):
    return T.app('transpose', tt(vf, vf.deref(args[0])))        # same as .t() (followed by to_owned, an alias)


@reg('SHAPE', 'ndarray::Slice::from')
def h_slice_from(vf, node, fn, args):
    return tt(vf, vf.deref(args[0]))            # Slice::from(range) carries the range


@reg('OPTION', 'std::result::Result::and_then', 'std::option::Option::and_then', 'std::result::Result::map')
def h_result_chain(vf, node, fn, args):
    """Ok / Some are transparent in the term algebra (the tag lives in is:* conditions): r.map(f) and r.and_then(f) apply f to the
    success value; the error path is whatever r's error path is"""
    key = callee_key(fn)
    o = vf.deref(args[0])
    ot = tt(vf, o)
    if T.is_app(ot, 'opt'):
        if key.endswith('::and_then'):
            f = vf.deref(args[1])
            if isinstance(f, Clos):
                vf.pc.append(ot[2][0])
                try:
                    r = tt(vf, vf.apply_closure(f, [ot[2][1]]))
                finally:
                    vf.pc.pop()
                return T.app('opt', T.land(ot[2][0], r[2][0]), r[2][1]) if T.is_app(r, 'opt') else T.app('opt', ot[2][0], r)
        return vf.default_call(key, args, node, fn)
    f = vf.deref(args[1])
    if isinstance(f, Clos):
        return vf.apply_closure(f, [o])
    r = vf.apply_fn_item(tt(vf, f), [o], node)
    return r if r is not None else vf.default_call(key, args, node, fn)


@reg('ITER', 'std::iter::Iterator::position')
def h_position(vf, node, fn, args):
    """iter.position(pred): Some(k) for the first k with pred(elem_k), else None -- evaluated like a scan with an early return
    (`for (k, x) in iter.enumerate() { if pred(x) { return Some(k) } } None`), so a stateful predicate (a running sum) is a carried
    place of that loop.  The result is a modelled option opt(found, k)."""
    s_ = vf.as_seq(args[0], node)
    c = vf.deref(args[1])
    if not isinstance(c, Clos):
        return vf.default_call('std::iter::Iterator::position', args, node, fn)
    NONE = T.app('none#position')
    saved_pc, saved_outer = vf.pc, vf.pc_outer
    vf.pc_outer = saved_outer + list(saved_pc)
    vf.pc = []
    vf.fn_exits.append([])
    saved_le, saved_lb = vf.loop_exits, vf.loop_pc_base
    vf.loop_exits, vf.loop_pc_base = [], []
    holder = {}

    def body(elem):
        ls = vf.loops[holder['i']]
        pred = tt(vf, vf.apply_closure(c, [elem]))

        def ret():
            vf.fn_exits[-1].append((T.land(*vf.pc), ls.var, dict(vf.store)))
            if vf.loop_exits:
                vf.loop_exits[-1].append(('return', None, T.land(*vf.pc_since_loop()), None))
            vf.dead = True
            return T.sym('dead')
        vf.branch(pred, ret, lambda: T.UNIT)
        return T.UNIT
    holder['i'] = len(vf.loops)
    vf.loop_over(s_, body, node, kind='for')
    res = vf.finish_fn(NONE)
    vf.loop_exits, vf.loop_pc_base = saved_le, saved_lb
    vf.pc, vf.pc_outer = saved_pc, saved_outer
    rt = tt(vf, res)
    if rt[0] == 'ite' and rt[3] is NONE and not any(x is NONE for x in T.subterms(rt[2])):
        return T.app('opt', rt[1], rt[2])
    if rt is NONE:
        return T.app('opt', T.FALSE, T.ZERO)
    return rt
