"""Effect layer over VF evaluations: randomness sources, generator provenance, liveness of draws."""
import re
from . import terms as T
from .speclib import strip_post, root_place, apps, show, keyrepr
from .facts import walk, strip_generics

RNG_EVENT_KINDS = ('draw', 'global_draw', 'thread_rng', 'entropy', 'global_seed', 'seed')


def loop_by_uid(ev, uid):
    for ls in ev.vf.loops:
        if ls.uid == uid:
            return ls
    return None


def origin(ev, t, depth=0):
    """follow a generator/value chain back through post-states and loop-head symbols to where it came from"""
    t = strip_post(t)
    if depth > 50:
        return t
    if isinstance(t, T.Tm) and t[0] == 'ite':
        a, b = origin(ev, t[2], depth + 1), origin(ev, t[3], depth + 1)
        if a is b:
            return a
        return t
    if isinstance(t, T.Tm) and t[0] == 'sym':
        m = re.match(r'l([hx])(\d+):(.*)', t[1])
        if m:
            ls = loop_by_uid(ev, int(m.group(2)))
            if ls is not None:
                for k, h in list(ls.lh.items()) + list(ls.lx.items()):
                    if h is t and ls.init.get(k) is not None and isinstance(ls.init[k], T.Tm):
                        return origin(ev, ls.init[k], depth + 1)
    return t


def gen_root(ev, t):
    o = origin(ev, t)
    rp = root_place(o)
    if rp is not None:
        return rp
    if isinstance(o, T.Tm) and o[0] == 'app':
        return o[1].split('#')[0] + ('(' + ', '.join(show(a) for a in o[2]) + ')' if o[2] else '()')
    return show(o)


class Site:
    def __init__(self, ev, e):
        self.ev, self.e = ev, e
        self.kind = e.op
        self.owner = e.owner
        self.sp = e.sp
        self.loops = e.loops
        self.res = e.res
        self.args = e.args
        self.draw_kind = getattr(e, 'draw_kind', None)
        self.gargs = getattr(e, 'gargs', [])
        if e.op == 'draw':
            self.gen = e.args[0]
            self.gen_origin = origin(ev, e.args[0])
            self.gen_root = gen_root(ev, e.args[0])
        else:
            self.gen = self.gen_origin = None
            self.gen_root = None

    def dist(self):
        """distribution descriptor string of a draw"""
        if self.kind == 'global_draw':
            d = self.args[1] if len(self.args) > 1 else None
            return show(d) if d is not None else '?'
        dk = self.draw_kind
        if dk in ('rng_random', 'rng_random_bool', 'rng_random_range'):
            return 'StandardUniform<%s>' % (self.gargs[1] if len(self.gargs) > 1 else '?')
        if dk in ('rng_sample', 'sample_iter', 'dist_sample'):
            d = self.args[1] if len(self.args) > 1 else None
            return show(d) if d is not None else '?'
        return dk or self.kind

    def ident(self):
        return (self.owner, self.sp)


def draw_vector(ev, dist_word, within=None):
    """a vector of independent draws of one distribution from one generator, whichever way it is drawn:
    element-wise in a counted loop (`for _ in 0..n { v.push(rng.random()) }`, `(0..n).map(|_| ..).collect()`, `repeat_with(..).take(n)`)
    or as a block (`rng.sample_iter(D).take(n).collect()`).  Both consume n consecutive variates of the generator.
    Returns {'site', 'seq' (the collected vector term), 'n', 'form', 'wrappers'} or None when there is not exactly one such vector.
    `within`: a term in which the block form's comprehension is looked up (its length is wherever the stream is truncated)."""
    from .speclib import collected, mk_comp, S as _S
    sites = [s for s in rng_sites(ev) if s.kind == 'draw' and dist_word in s.dist()]
    per_elem = [s for s in sites if s.draw_kind in ('rng_random', 'rng_sample', 'dist_sample') and len(s.loops) == 1]
    block = [s for s in sites if s.draw_kind == 'sample_iter' and not s.loops]
    if len(per_elem) == 1 and not block:
        s = per_elem[0]
        ul = loop_by_uid(ev, s.loops[0])
        seqs = [seq for seq, el in collected(ul) if el is s.res] if ul is not None else []
        if len(seqs) == 1 and not ul.exits:
            return {'site': s, 'seq': seqs[0], 'n': ul.n, 'form': 'loop', 'loop': ul}
        return None
    if len(block) == 1 and not per_elem and within is not None:
        s = block[0]
        comps = [c for c in T.atoms(within, lambda x: T.is_app(x, 'comp')) if any(y is s.res for y in T.subterms(c))]
        k = _S('k#dv')
        comps = [c for c in comps if c is mk_comp(c[2][0], k, T.app('nth', s.res, k))]
        if len(comps) == 1:
            return {'site': s, 'seq': comps[0], 'n': comps[0][2][0], 'form': 'block', 'loop': None}
    return None


def rng_sites(ev):
    return [Site(ev, e) for e in ev.vf.events if e.op in RNG_EVENT_KINDS]


def value_subterms(t):
    """subterms reachable as VALUES: does not descend into the generator argument of a draw,
    nor into generator post-states post_k(rng_*(...)) (they mention a draw but carry no value of it)"""
    stack = [t]
    seen = set()
    while stack:
        x = stack.pop()
        if not isinstance(x, T.Tm) or x in seen:
            continue
        seen.add(x)
        k = x[0]
        if k == 'app':
            if x[1].startswith('post') and x[2] and x[2][0][0] == 'app' and x[2][0][1].startswith('rng_'):
                continue
            yield x
            if x[1].startswith('rng_'):
                stack.extend(x[2][1:])
            else:
                stack.extend(x[2])
            continue
        yield x
        if k == 'poly':
            for m, _c in x[1]:
                for a, _e in m:
                    stack.append(a)
        elif k == 'cmp':
            stack.append(x[2])
        elif k == 'not':
            stack.append(x[1])
        elif k in ('and', 'or', 'tuple'):
            stack.extend(x[1])
        elif k == 'ite':
            stack.extend(x.parts[1:])


def carriers_of(ev, res):
    """terms that carry the value of a draw: the draw itself and symbols of loop-carried places fed by it"""
    car = {res}
    changed = True
    while changed:
        changed = False
        for ls in ev.vf.loops:
            for k, nxt in ls.next.items():
                if not isinstance(nxt, T.Tm):
                    try:
                        nxt = ev.vf.to_term(nxt)
                    except Exception:
                        continue
                if any(x in car for x in value_subterms(nxt)):
                    for sym_ in (ls.lh.get(k), ls.lx.get(k)):
                        if sym_ is not None and sym_ not in car:
                            car.add(sym_)
                            changed = True
            rt = getattr(ls, 'result_term', None)
            if rt is not None and any(x in car for x in value_subterms(rt)):
                s_ = T.sym('loop%d' % ls.uid)
                if s_ not in car:
                    car.add(s_)
                    changed = True
            # loop exit conditions are uses that steer every carried place
            for e in ls.exits:
                if any(x in car for x in value_subterms(e[2])):
                    for k in ls.lh:
                        for sym_ in (ls.lx.get(k),):
                            if sym_ is not None and sym_ not in car:
                                car.add(sym_)
                                changed = True
    return car


def is_live(ev, site, exclude_roots=()):
    """does the drawn value reach the caller-visible state, the return value or another effect?"""
    car = carriers_of(ev, site.res)

    def uses(t):
        return any(x in car for x in value_subterms(t))

    for k, v in ev.vf.store.items():
        if k[0][0] != 'ext':
            continue
        if keyrepr(k) in exclude_roots:
            continue
        try:
            t = ev.vf.to_term(v)
        except Exception:
            continue
        if uses(t):
            return True
    if ev.ret is not None:
        try:
            if uses(ev.vf.to_term(ev.ret)):
                return True
        except Exception:
            pass
    for e in ev.vf.events:
        if e is site.e or e.op in RNG_EVENT_KINDS:
            continue
        for a in e.args:
            if isinstance(a, T.Tm) and uses(a):
                return True
        for c in e.pc:
            if uses(c):
                return True
    return False


def draws_on_chain(ev, t):
    """the draw terms whose post-states lie on the provenance chain of generator state `t`
    (through post-states, loop head/exit symbols -- init AND next --, and both arms of an ite)"""
    out, seen, stack = set(), set(), [t]
    while stack:
        x = stack.pop()
        if not isinstance(x, T.Tm) or x in seen:
            continue
        seen.add(x)
        if x[0] == 'ite':
            stack.extend([x[2], x[3]])
        elif x[0] == 'app' and x[1].startswith('post') and x[2]:
            inner = x[2][0]
            idx = int(x[1][4:]) if x[1][4:].isdigit() else 0
            if inner[0] == 'app':
                out.add(inner)
                if len(inner[2]) > idx:
                    stack.append(inner[2][idx])
        elif x[0] == 'sym':
            m = re.match(r'l([hx])(\d+):(.*)', x[1])
            if m:
                ls = loop_by_uid(ev, int(m.group(2)))
                if ls is not None:
                    for k, h in list(ls.lh.items()) + list(ls.lx.items()):
                        if h is x:
                            for src in (ls.init.get(k), ls.next.get(k)):
                                if src is not None and not isinstance(src, T.Tm):
                                    try:
                                        src = ev.vf.to_term(src)
                                    except Exception:
                                        src = None
                                if src is not None:
                                    stack.append(src)
    return out


def advances(ev, site):
    """the draw consumed the generator it was given IN PLACE (not a copy), and the state that place holds when the
    body returns descends from this draw's post-state (nobody rewound or replaced the generator afterwards)"""
    gp = getattr(site.e, 'gen_place', None)
    if gp is None:
        return False, 'drawn from a temporary copy of the generator (its state is not advanced)'
    k = gp
    # the generator may be a sub-place of a written parent; look the exact place up first
    try:
        fin = ev.vf.to_term(ev.vf.read(k))
    except Exception as ex:
        return False, 'final generator state unreadable: %s' % ex
    if site.res in draws_on_chain(ev, fin):
        return True, ''
    return False, 'final state of the generator %s does not descend from this draw' % show(fin)[:120]


def checked_u64_arith(body, facts):
    """THIR Binary Add/Sub/Mul nodes of type u64 in a body and its closures (overflow-checked in the dev profile)"""
    out = []

    def visit(b):
        def f(n):
            if n.get('k') in ('Binary',) and n.get('op') in ('Add', 'Sub', 'Mul') and n.get('ty') == 'u64':
                out.append(n)
            if n.get('k') == 'AssignOp' and n.get('l', {}).get('ty') == 'u64':
                out.append(n)
        walk(b.get('thir'), f)
        for c in facts.children.get(b['did'], []):
            if c['def_kind'] == 'Closure':
                visit(c)
    visit(body)
    return out


def static_refs(body, facts):
    out = []

    def visit(b):
        def f(n):
            if n.get('k') in ('StaticRef', 'ThreadLocalRef'):
                out.append(n)
        walk(b.get('thir'), f)
        for c in facts.children.get(b['did'], []):
            if c['def_kind'] == 'Closure':
                visit(c)
    visit(body)
    return out


def per_chain_sets(ev, chains_field='chains'):
    """From a seeding / construction method that loops over self.chains: the fields it sets on every chain.
    Returns (loop, index var, {field: term}) or None."""
    cands = []
    for ls in ev.vf.loops:
        for k, nxt in ls.next.items():
            if keyrepr(k) != 'self.' + chains_field or not isinstance(nxt, T.Tm):
                continue
            lh = ls.lh[k]
            if T.is_app(nxt, 'upd') and nxt[2][0] is lh:
                idx, val = nxt[2][1], nxt[2][2]
                fields = {}
                if T.is_app(val, 'with'):
                    base = val[2][0]
                    for s_ in val[2][1:]:
                        fields[s_[1][4:]] = s_[2][0]
                    cands.append((ls, idx, base, fields, lh))
    if cands:
        ls1, idx1, base1, fields1, lh1 = cands[0]
        merged = dict(fields1)
        for ls2, idx2, base2, fields2, lh2 in cands[1:]:
            # a second pass over the same chains that sets other fields (`for c in chains { c.rng = .. }  for c in chains { c.proposal = .. }`)
            # is the one-pass form when it runs over the same range with the same index, directly after the first, and reads none of
            # the fields the earlier pass wrote
            same_range = ls2.n is ls1.n and not ls1.exits and not ls2.exits and not ls1.ctx and not ls2.ctx and (idx2 is ls2.var) == (idx1 is ls1.var)
            chained = [ls2.init[k] for k in ls2.lh if ls2.lh[k] is lh2] == [ls1.lx[k] for k in ls1.lh if ls1.lh[k] is lh1]
            m = {ls2.var: ls1.var, lh2: lh1}
            if idx2 is not ls2.var:
                m[idx2] = idx1
            vals = {f: T.subst(v, m) for f, v in fields2.items()}
            from .speclib import fld
            reads_written = any(fld(base1, f) in set(T.subterms(v)) for v in vals.values() for f in merged)
            if not (same_range and chained) or reads_written or set(vals) & set(merged):
                break
            merged.update(vals)
        return ls1, idx1, base1, merged
    # functional spelling: the method returns the sampler rebuilt with `chains` collected from a map over its own chains, each
    # element a rebuilt chain -- `Self { chains: self.chains.into_iter().enumerate().map(|(i, c)| c.set_seed(f(i))).collect() }`
    from .speclib import fld, strip_eff, index_term, mk_comp
    try:
        cv = strip_eff(fld(ev.ret_term, chains_field)) if isinstance(ev.ret_term, T.Tm) else None
    except Exception:
        cv = None
    own = T.app('.' + chains_field, T.sym('self'))
    for ls in ev.vf.loops:
        rt = getattr(ls, 'result_term', None)
        if cv is None or ls.kind != 'forced' or not T.is_app(rt, 'with') or ls.ctx:
            continue
        base = rt[2][0]
        if base is index_term(own, ls.var) and cv is mk_comp(ls.n, ls.var, rt):
            ls.enum_like = True         # chain k is rebuilt from chain k with values computed from k
            return ls, ls.var, base, {s_[1][4:]: s_[2][0] for s_ in rt[2][1:]}
    return None
