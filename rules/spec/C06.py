"""C06 — long-run averages converge (ONE structural clause only; DESIGN.md section 4/C06)."""
from ..speclib import *
from .. import effects as E
from .C03 import locate

TITLE = 'Draw sites on sampler paths have the distribution their role requires, advance the chain generator in place, and each drawn value feeds exactly one role; every transition is one of the kernels specified in C01-C05; burn-in rows are the discarded ones'
EXPLANATION = ('The convergence statement of C06 is statistical and is NOT decided. Decided clause (necessary, far from sufficient): "momenta, slice levels, proposal noise and '
               'acceptance draws have the distributions the algorithms require and are mutually independent" in its structural form — a table of the draw sites on the sampler '
               'paths (MH acceptance, isotropic proposal noise, HMC momenta and uniforms, NUTS momentum / Exp(1) slice / direction / accept / merge uniforms, categorical '
               'variate, initial positions): each site draws the required distribution (type-resolved rand API + distribution value) from the sampler-owned generator, and the '
               'drawn value reaches exactly one role sink (no value drawn once is used for two decisions); each draw consumes the generator IN PLACE (never a copy) and the '
               'generator state at the end of the transition descends from that draw (C06.advance). Second decided clause (also only necessary): the transition functions are '
               'the kernels whose normal forms C01-C05 specify (MH ratio with the Hastings correction in the right direction, sequential Gibbs sweep, leapfrog/Hamiltonian, NUTS '
               'tree + adaptation) and the collection loops discard exactly the warm-up rows (C09 loop obligations) -- the obligations of those specs are re-decided here under C06 keys, and so are those of C08 ("over independent chains": no two chains, and no two generators of one chain, share a stream).')
TECHNIQUE = 'draw-site table: distribution kind from resolved callees/values, single-use (one role sink) by value-flow containment, generator-advance by provenance chain; kernel normal forms shared with C01-C05/C09'
LEVEL_NOTE = ('Decides only the draw-kind / single-use / generator-advance clause and the kernel-shape clause shared with C01-C05/C09. Convergence of long-run averages and calibration of Monte-Carlo error are outside '
              'this check; trusted: rand/rand_distr contracts (StandardUniform on [0,1), StandardNormal, Exp1), semantic table.')


def all_terms(ev):
    out = []
    for k, v in ev.vf.store.items():
        if k[0][0] == 'ext':
            try:
                out.append(ev.vf.to_term(v))
            except Exception:
                pass
    if ev.ret is not None:
        try:
            out.append(ev.vf.to_term(ev.ret))
        except Exception:
            pass
    for ls in ev.vf.loops:
        for k, nx in ls.next.items():
            if isinstance(nx, T.Tm):
                out.append(nx)
            elif nx is not None:
                try:
                    out.append(ev.vf.to_term(nx))
                except Exception:
                    pass
        for e in ls.exits:
            out.append(e[2])
        rt = getattr(ls, 'result_term', None)
        if rt is not None:
            out.append(rt)
    for e in ev.vf.events:
        if e.op in E.RNG_EVENT_KINDS:
            continue
        out.extend(a for a in e.args if isinstance(a, T.Tm))
        out.extend(e.pc)
    return out


def single_use(ev, draw, wrappers):
    """every value occurrence of `draw` lies inside one of the wrapper terms"""
    m = {w: T.sym('role#%d' % i) for i, w in enumerate(wrappers)}
    used_in_wrapper = False
    for t in all_terms(ev):
        if any(x in m for x in T.subterms(t)):
            used_in_wrapper = True
        t2 = T.subst(t, m) if m else t
        if t2 is draw:
            continue        # the bare element of a map(..).collect(): its uses are the terms it is embedded in
        if any(x is draw for x in E.value_subterms(t2)):
            return False, t2
    return used_in_wrapper, None


def site(ctx, anchor, slot, ev, s, want_kind, want_dist, wrappers, why, gen='self.rng'):
    kind_ok = s is not None and s.draw_kind in want_kind and want_dist in s.dist() and (gen is None or s.gen_root == gen)
    ctx.check('C06.kind', anchor, slot, kind_ok, expected='%s from %s' % (want_dist, gen), found='%s (%s) from %s' % (s.dist(), s.draw_kind, s.gen_root) if s else 'no such draw', sp=s.sp if s else None, why=why)
    if s is None:
        return
    adv, whyn = E.advances(ev, s)
    ctx.check('C06.advance', anchor, slot, adv, expected='the draw advances the generator it reads, in place, and that state survives to the end of the transition', found='advances %s' % s.gen_root if adv else whyn, sp=s.sp,
              why='successive draws (this transition\'s other draws, and the next transition\'s) must come from fresh generator state; drawing from a copy replays the same variates (momenta identical every step and correlated with the acceptance draws)')
    if s.draw_kind == 'sample_iter':
        # a stream: its elements nth(D, i) are separate draws; the stream itself must not be consumed in any other way
        wrappers = list(wrappers) + T.atoms(T.tup(*all_terms(ev)), lambda x: T.is_app(x, 'nth') and x[2][0] is s.res)
    ok, where = single_use(ev, s.res, wrappers)
    ctx.check('C06.single_use', anchor, slot, ok, expected='the drawn value is used only in its role: %s' % '; '.join(show(w)[:80] for w in wrappers), found='also used in ' + show(where)[:200] if where is not None else ('role sink not found' if not ok else 'role only'),
              sp=s.sp, why='a value drawn once must not drive two decisions (independence of momenta, slice levels, proposal noise and acceptance draws)')


def one(sites, pred):
    x = [s for s in sites if pred(s)]
    return x[0] if len(x) == 1 else None


def kernels(ctx):
    """second decided clause: every sampler's transition is the kernel whose invariance C01-C05 establish, and burn-in
    rows are the ones discarded (C09's loop obligations).  Same rules, decided here as well: a transition that is not
    one of the specified kernels does not (provably) leave the target invariant, so long-run averages need not converge."""
    from . import C01, C02, C03, C04, C05, C08, C09
    n = {}
    for mod, keep in ((C01, lambda o: o.startswith('C01.')), (C02, lambda o: o.startswith('C02.')), (C03, lambda o: o.startswith('C03.')),
                      (C04, lambda o: o.startswith('C04.')), (C05, lambda o: o.startswith('C05.')),
                      (C08, lambda o: True),      # 'over independent chains': no two chains / generators of a chain share a stream
                      (C09, lambda o: o.startswith(('C09.run_chain.', 'C09.hmc_run.', 'C09.nuts_run.', 'C09.runner_run.', 'C09.accessor')))):
        n[mod.__name__.rsplit('.', 1)[-1]] = len(ctx.borrow(mod.run, keep))
    for k, v in n.items():
        if v == 0:
            ctx.unknown('C06.kernel', k, 'borrowed', why='no kernel obligations of %s could be instantiated' % k)


def run(ctx):
    kernels(ctx)
    # ---- MH acceptance
    b = ctx.anchor('MH.step', name='step', trait='core::MarkovChain', self_head='metropolis_hastings::MHMarkovChain')
    if b is not None:
        ev = ctx.evaluate(b)
        s = one(E.rng_sites(ev), lambda s: s.kind == 'draw')
        site(ctx, 'MHMarkovChain::step', 'acceptance-u', ev, s, ('rng_random',), 'StandardUniform', [T.app('ln', s.res)] if s else [], 'acceptance variate is uniform on [0,1)')
    # ---- isotropic proposal noise
    b = ctx.anchor('Iso.sample', name='sample', trait='distributions::Proposal', self_head='distributions::IsotropicGaussian')
    if b is not None:
        ev = ctx.evaluate(b)
        s = one(E.rng_sites(ev), lambda s: s.kind == 'draw')
        k = S('%b1')
        site(ctx, 'IsotropicGaussian::sample', 'proposal-noise', ev, s, ('sample_iter',), 'Normal(0, .std(self))', [T.app('nth', s.res, k)] if s else [], 'proposal noise is N(0, std^2) per coordinate')
    # ---- HMC
    b = ctx.anchor('HMC.step', name='step', self_head='hmc::HMC', container='inherent')
    if b is not None:
        ev = ctx.evaluate(b)
        sites = E.rng_sites(ev)
        sn = one(sites, lambda s: s.kind == 'draw' and s.draw_kind == 'sample_iter' and 'StandardNormal' in s.dist())
        final = ev.final_term('self.positions')
        tds = apps(final, 'tensordata')
        p0 = [td for td in tds if sn is not None and contains(td, sn.res)]
        site(ctx, 'HMC::step', 'momenta', ev, sn, ('sample_iter',), 'StandardNormal', p0[:1], 'momenta are standard normal')
        dv = E.draw_vector(ev, 'StandardUniform', within=final)     # `for` + push, map(..).collect(), or one block of the stream: same variates
        su = dv['site'] if dv is not None else one(sites, lambda s: s.kind == 'draw' and s.draw_kind == 'rng_random')
        wr, useq = [], None
        if dv is not None:
            useq = dv['seq']
            ul = dv['loop']
            first = ([nx for nx in ul.next.values() if isinstance(nx, T.Tm) and contains(nx, su.res) and not T.is_app(nx, 'post0')] if ul is not None else []) or [useq]
            wr = first + [useq] + [T.app('ln', td) for td in tds if contains(td, useq)]
        site(ctx, 'HMC::step', 'acceptance-U', ev, su, ('rng_random', 'sample_iter'), 'StandardUniform', wr, 'acceptance variates are uniform on [0,1), one per chain')
        # the collected uniforms are used only through ln(U)
        if su is not None and useq is not None:
            lnw = [w for w in wr if T.is_app(w, 'ln')]
            okln = bool(lnw) and single_use(ev, useq, lnw)[0]
            ctx.check('C06.single_use', 'HMC::step', 'acceptance-U.ln', okln, expected='collected uniforms used only as ln(U) in the accept mask', found='…', sp=su.sp, why='one acceptance variate per chain, one use')
    # ---- NUTS
    bstep, rec = locate(ctx)
    if bstep is not None and rec and len(rec) == 1:
        bt = rec[0]
        btkey = strip_generics(bt['path'])
        ev = ctx.evaluate(bstep, no_inline=(btkey,))
        sites = [s for s in E.rng_sites(ev) if s.kind == 'draw']
        A = 'NUTSChain::step'
        sn = one(sites, lambda s: s.draw_kind == 'sample_iter')
        dim = index_term(T.app('dims', selff('position')), N(0))
        k = S('k#a')
        mom0 = mk_comp(dim, k, T.app('nth', sn.res, k)) if sn else None
        site(ctx, A, 'momentum', ev, sn, ('sample_iter',), 'StandardNormal', [mom0] if sn else [], 'momentum resampled from a standard normal each transition')
        se = one(sites, lambda s: s.draw_kind == 'rng_sample')
        bts = [e for e in ev.vf.events if e.key == btkey]
        logus = sorted(set(e.args[3] for e in bts), key=T.key) if bts else []
        site(ctx, A, 'slice-Exp1', ev, se, ('rng_sample',), 'Exp1', logus, 'slice level log u = joint - Exp(1)')
        us = [s for s in sites if s.draw_kind == 'rng_random']
        ctx.check('C06.count', A, 'uniforms', len(us) == 2, expected='two uniform draws per doubling (direction, accept)', found=str(len(us)), sp=bstep['sp'], why='direction and acceptance use separate draws')
        for s in us:
            cmps = T.atoms(T.tup(*all_terms(ev)), lambda x: x[0] == 'cmp' and contains(x, s.res) and not any(y[0] == 'cmp' and y is not x and contains(y, s.res) for y in T.subterms(x[2])))
            role = 'direction' if any(c is T.cmp('lt', s.res, T.div(T.ONE, N(2))) for c in cmps) else 'accept'
            site(ctx, A, role + '-U', ev, s, ('rng_random',), 'StandardUniform', cmps[:1] if len(cmps) == 1 else cmps, 'uniform on [0,1)')
        evt = ctx.evaluate(bt)
        st = one([s for s in E.rng_sites(evt) if s.kind == 'draw'], lambda s: True)
        cm = T.atoms(T.tup(*all_terms(evt)), lambda x: x[0] == 'cmp' and st is not None and contains(x, st.res))
        site(ctx, 'build_tree', 'merge-U', evt, st, ('rng_random',), 'StandardUniform<f64>', cm, 'subtree selection uses a fresh uniform', gen='rng')
    b = ctx.helper('nuts.init_chain')
    frekey = ctx.helper_key('nuts.fre', 'nuts::find_reasonable_epsilon')
    if b is not None:
        ev = ctx.evaluate(b, no_inline=(frekey,))
        s = one(E.rng_sites(ev), lambda s: s.kind == 'draw')
        fr = ev.events(lambda e: e.key == frekey)
        site(ctx, 'NUTSChain::init_chain', 'momentum', ev, s, ('sample_iter',), 'StandardNormal', [fr[0].args[1]] if fr else [], 'heuristic uses a standard-normal momentum')
    # ---- Categorical
    b = ctx.anchor('Cat.sample', name='sample', trait='distributions::Discrete', self_head='distributions::Categorical')
    if b is not None:
        ev = ctx.evaluate(b)
        s = one(E.rng_sites(ev), lambda s: s.kind == 'draw')
        cm = T.atoms(T.tup(*all_terms(ev)), lambda x: x[0] == 'cmp' and s is not None and contains(x, s.res))
        site(ctx, 'Categorical::sample', 'variate', ev, s, ('rng_random',), 'StandardUniform', cm, 'inverse-CDF variate uniform on [0,1)')
    # ---- initial positions
    b = ctx.helper('core._init')
    if b is not None:
        ev = ctx.evaluate(b)
        s = one(E.rng_sites(ev), lambda s: s.kind == 'draw')
        site(ctx, 'core::_init', 'positions', ev, s, ('dist_sample',), 'StandardNormal', [s.res] if s else [], 'initial positions are standard normal', gen='rng')
