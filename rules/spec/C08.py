"""C08 — distinct random streams per chain (DESIGN.md section 4/C08, Appendix A.C08)."""
from ..speclib import *
from .. import effects as E
from .C07 import anchors, seeded_fields

TITLE = 'No two chains of a sampler consume the same random stream; acceptance and proposal generators of a chain are never seeded identically'
EXPLANATION = ('Effect / value-flow rules on constructors and seeding methods: R8.1 per-chain seeds are affine in the chain index with coefficient +-1 '
               '(injective on 0..n, also modulo 2^64); R8.2 unseeded construction creates each chain\'s generator inside the per-chain constructor call; '
               'R8.3 a value that may encapsulate a generator (type parameter bounded by Proposal, which offers set_seed) and is cloned from one prototype into '
               'every chain passes through set_seed(., per-chain value) first; R8.4 within a chain the acceptance seed is seed + k (k >= 1 for every index) and '
               'differs from the proposal seed; R8.5 HMC draws one [n_chains, dim] momentum block and n_chains uniforms from its single stream (no expand of a smaller draw).')
TECHNIQUE = 'effect / ownership analysis of constructors and seeding methods over value-flow terms (affine seed forms, clone provenance)'


def run(ctx):
    A = anchors(ctx)
    # what the per-chain analysis below takes for granted: a clone is a copy (derived Clone on the sampler / proposal types), `x.m()` reaches the
    # analysed trait implementations, the proposal's re-seeding method cannot be silently inherited, and the accessor is the place self.chains
    from .. import frame
    frame.shadowing(ctx, 'C08', ['distributions::IsotropicGaussian', 'metropolis_hastings::MHMarkovChain', 'metropolis_hastings::MetropolisHastings', 'gibbs::GibbsMarkovChain', 'gibbs::GibbsSampler', 'hmc::HMC', 'nuts::NUTSChain', 'nuts::NUTS'])
    frame.required_method(ctx, 'C08', 'distributions::Proposal', 'set_seed',
                          why='each chain\'s proposal is given its own stream through this method; an inherited default cannot re-seed the implementor\'s generator, leaving every chain with a clone of one stream')
    for b in [b for b in ctx.facts.bodies if b.get('container') == 'trait_impl' and strip_generics(b.get('trait') or '') == 'core::HasChains' and b.get('name') == 'chains_mut']:
        frame.accessor_pure(ctx, 'C08', b, 'chains')
    idxsym = None
    # ---------------------------------------------------------------- R8.1 / R8.4 seeded: MH, NUTS
    seedexpr = {}
    for sampler, nm in (('MH', 'MH.seed'), ('NUTS', 'NUTS.seed')):
        b = A.get(nm)
        if b is None:
            ctx.unknown('C08.R8.1', nm, 'anchor', why='anchor not found')
            continue
        anchor = strip_generics(b['path'])
        ev, fields, idx, whole, ls = seeded_fields(ctx, sampler, b)
        val = fields.get('rng')
        if ls is None or val is None or not T.is_app(val, 'seed_from_u64'):
            ctx.bad('C08.R8.1', anchor, 'rng', expected='every chain: rng = seed_from_u64(f(seed, i))', found=show(val) if val is not None else 'no per-chain write of rng', sp=b['sp'],
                    why='per-chain generators must be seeded from the seed and the chain index')
            continue
        h = val[2][0]
        seedexpr[sampler] = (h, idx, ls)
        def counts(x):
            try:
                return ev.t(x) is ls.var
            except Exception:
                return False
        # the chain index is the loop's own counter: `enumerate()`, or a zip with `0..` on either side
        is_enum = (isinstance(ls.elem, Tup) and any(counts(x) for x in ls.elem.items) and idx is ls.var) or (getattr(ls, 'enum_like', False) and idx is ls.var)
        inj = is_enum and (not contains(T.sub(h, idx), idx) or not contains(T.add(h, idx), idx)) and contains(h, idx)
        ctx.check('C08.R8.1', anchor, 'rng', inj, expected='seed expression affine in the chain index with coefficient +-1 (injective on chains)', found=show(h), sp=b['sp'],
                  why='two chains seeded identically consume the same random stream')
    if 'MH' in seedexpr:
        h, idx, ls = seedexpr['MH']
        b = A['MH.seed']
        anchor = strip_generics(b['path'])
        off = T.sub(h, S('seed'))
        okoff = offset_positive(off, idx)
        ctx.check('C08.R8.4.offset', anchor, 'acceptance-seed', okoff, expected='acceptance seed = seed + k(i) with k(i) >= 1 for every chain index', found='seed + (%s)' % show(off), sp=b['sp'],
                  why='users hand the bare seed to Proposal::set_seed; the acceptance generator must not be seeded identically')
        ev, fields, idx2, whole, ls2 = seeded_fields(ctx, 'MH', b)
        pv = fields.get('proposal')
        if pv is not None and T.is_app(pv, 'distributions::Proposal::set_seed'):
            g = pv[2][1]
            d = T.sub(g, h)
            n = T.app('len', selff('chains'))
            okd = (T.is_num(d) and T.numval(d) != 0) or d is n or (d[0] == 'poly' and not contains(d, idx) and offset_positive(d, idx, extra=(n,)))
            ctx.check('C08.R8.4.distinct', anchor, 'proposal-vs-acceptance', okd, expected='proposal seed - acceptance seed is a non-zero quantity for every chain (e.g. the number of chains)',
                      found=show(d), sp=b['sp'], why='within a chain the two generators must not be seeded identically')
            ck_ = [k for k in ls.lh if keyrepr(k) == 'self.chains']
            base_ok = pv[2][0] is fld(index_term(ls.lh[ck_[0]] if ck_ else selff('chains'), idx), 'proposal')
            ctx.check('C08.R8.4.own', anchor, 'proposal-base', base_ok, expected='chain i re-seeds its own proposal', found=show(pv[2][0]), sp=b['sp'],
                      why='the re-seeded proposal must be the chain\'s own object')
    # the library proposal turns distinct seeds into distinct streams: set_seed seeds the generator with the seed itself (a clamp such
    # as seed.max(1) maps two chains' seeds to one stream when the per-chain seeds wrap around) -- decided for C15 as well
    from . import C15
    got = ctx.borrow(C15.isotropic, lambda oid: oid.startswith('C15.iso.set_seed'))
    if not got:
        ctx.unknown('C08.R8.4.proposal_seed', 'IsotropicGaussian::set_seed', 'injective', why='the obligation on the library proposal\'s set_seed could not be instantiated')
    # ---------------------------------------------------------------- R8.2 / R8.3 constructors
    for sampler, nm, chain_adt in (('MH', 'MH.new', 'adt:metropolis_hastings::MHMarkovChain'), ('NUTS', 'NUTS.new', 'adt:nuts::NUTSChain')):
        b = ctx.anchor(nm, name='new', self_head={'MH': 'metropolis_hastings::MetropolisHastings', 'NUTS': 'nuts::NUTS'}[sampler], container='inherent')
        if b is None:
            ctx.unknown('C08.R8.2', nm, 'anchor', why='anchor not found')
            continue
        anchor = strip_generics(b['path'])
        ev = ctx.evaluate(b)
        loops = [ls for ls in ev.vf.loops if getattr(ls, 'result_term', None) is not None and T.is_app(ls.result_term, chain_adt)]
        if len(loops) != 1:
            ctx.unknown('C08.R8.2', anchor, 'per-chain-ctor', why='expected one per-chain construction loop producing %s (found %d)' % (chain_adt, len(loops)), sp=b['sp'])
            continue
        ls = loops[0]
        chain = ls.result_term
        fresh = [e.res for e in ev.vf.events if e.op in ('entropy', 'thread_rng') and ls.uid in e.loops]
        fresh_draws = [e.res for e in ev.vf.events if e.op == 'draw' and ls.uid in e.loops and any(contains(e.res, f) for f in fresh)]

        def per_chain(t):
            return contains(t, ls.var) or any(contains(t, f) for f in fresh + fresh_draws)
        rng = fld(chain, 'rng')
        ctx.check('C08.R8.2', anchor, 'rng', any(rng is f for f in fresh) or (T.is_app(rng, 'seed_from_u64') and per_chain(rng)),
                  expected='generator created inside the per-chain constructor call (fresh entropy per chain)', found=show(rng), sp=b['sp'],
                  why='a generator created once and copied would give every chain the same stream')
        if sampler == 'MH':
            # fields of generic type bounded by a trait that offers set_seed
            seedable = [p for p in b.get('preds', []) if re.match(r'\w+: distributions::Proposal<', p)]
            prop = fld(chain, 'proposal')
            if not seedable:
                ctx.unknown('C08.R8.3', anchor, 'proposal', why='no type parameter bounded by distributions::Proposal found on the constructor', sp=b['sp'])
            else:
                ok3 = T.is_app(prop, 'distributions::Proposal::set_seed') and prop[2][0] is S('proposal') and per_chain(prop[2][1])
                cloned = prop is S('proposal')
                ctx.check('C08.R8.3', anchor, 'proposal', ok3, rule='cloned-generator' if cloned else None,
                          expected='Proposal::set_seed(proposal.clone(), <per-chain value>) stored in the chain', found=show(prop), sp=b['sp'],
                          why='a proposal may encapsulate a generator (the trait offers set_seed); cloning one prototype into every chain gives all chains identical proposal noise')
                if ok3:
                    a = prop[2][1]
                    ctx.check('C08.R8.4.unseeded', anchor, 'proposal-vs-acceptance', not (a is rng) and not (T.is_app(rng, 'seed_from_u64') and rng[2][0] is a),
                              expected='proposal seed and acceptance generator come from different fresh values', found='%s / %s' % (show(a), show(rng)), sp=b['sp'],
                              why='within a chain the two generators must not be seeded identically')
    # ---------------------------------------------------------------- R8.5 HMC block draws
    hmc(ctx, A)


def offset_positive(off, idx, extra=()):
    """off is c0 + sum c_j * a_j with c0 >= 1, every a_j in {idx} + extra and c_j >= 0"""
    if T.is_num(off):
        return T.numval(off) >= 1
    if off is idx or off in extra:
        return False if off is idx else True
    if off[0] != 'poly':
        return False
    c0 = 0
    for m, c in off[1]:
        q = T.Fraction(c[0], c[1]) if hasattr(T, 'Fraction') else None
        from fractions import Fraction
        q = Fraction(c[0], c[1])
        if m == ():
            c0 = q
        elif len(m) == 1 and m[0][1] == 1 and (m[0][0] is idx or m[0][0] in extra) and q >= 0:
            continue
        else:
            return False
    return c0 >= 1 or any(len(m) == 1 and m[0][0] in extra for m, c in off[1])


def hmc(ctx, A):
    b = A.get('HMC.step')
    if b is None:
        ctx.unknown('C08.R8.5', 'HMC.step', 'anchor', why='anchor not found')
        return
    anchor = strip_generics(b['path'])
    ev = ctx.evaluate(b)
    dims = fld(T.app('shape_t', selff('positions')), 'dims')
    alt = T.app('dims', selff('positions'))
    nch = [index_term(dims, N(0)), index_term(alt, N(0))]
    dim = [index_term(dims, N(1)), index_term(alt, N(1))]
    sites = [s for s in E.rng_sites(ev) if s.kind == 'draw']
    normals = [s for s in sites if s.draw_kind == 'sample_iter' and 'StandardNormal' in s.dist()]
    unis = [s for s in sites if s.draw_kind == 'rng_random']
    final = ev.final_term('self.positions')
    tds = apps(final, 'tensordata')
    # momentum block
    okm = False
    foundm = 'no StandardNormal stream'
    if len(normals) == 1 and not normals[0].loops:
        D = normals[0].res
        for td in tds:
            data, shp = td[2][0], td[2][1]
            if T.is_app(data, 'comp') and contains(data, D):
                foundm = 'count %s shaped %s' % (show(data[2][0]), show(shp))
                for n_ in nch:
                    for d_ in dim:
                        k = S('k#a')
                        if data is mk_comp(T.mul(n_, d_), k, T.app('nth', D, k)) and shp is T.app('array', n_, d_):
                            okm = True
    ctx.check('C08.R8.5.momentum', anchor, 'momentum', okm, expected='one stream of n_chains*dim StandardNormal draws from self.rng shaped [n_chains, dim]', found=foundm, sp=b['sp'],
              why='each chain (row) must receive its own momentum coordinates; a [1, dim] draw expanded to all rows would make the chains copies')
    # uniforms
    oku = False
    foundu = 'no uniform draw loop'
    dv = E.draw_vector(ev, 'StandardUniform', within=final)
    if dv is not None:
        foundu = '%s form, n=%s' % (dv['form'], show(dv['n']))
        if any(dv['n'] is n_ for n_ in nch) and dv['site'].gen_root == 'self.rng':
            for td in tds:
                if strip_eff(td[2][0]) is strip_eff(dv['seq']) and any(td[2][1] is T.app('array', n_) for n_ in nch):
                    oku = True
    ctx.check('C08.R8.5.uniform', anchor, 'uniform', oku, expected='n_chains StandardUniform draws from self.rng collected in order into the [n_chains] acceptance tensor', found=foundu, sp=b['sp'],
              why='each chain needs its own acceptance variate')
    ctx.check('C08.R8.5.single_stream', anchor, 'streams', len(sites) == 2 and all(s.gen_root == 'self.rng' for s in sites), expected='exactly the two draw sites, both on self.rng',
              found=', '.join('%s<-%s' % (s.dist(), s.gen_root) for s in sites), sp=b['sp'], why='momenta and uniforms come from the sampler\'s single stream')
