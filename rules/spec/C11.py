"""C11 — split R-hat and run summaries (DESIGN.md section 4/C11, Appendix A.C11)."""
from ..speclib import *

TITLE = 'Split R-hat = sqrt(var+/W) of the half-chains; summary statistics are true order statistics; comparator total'
EXPLANATION = ('Value-flow normal forms of the public stats::split_rhat_mean_ess (helpers located by their role in its data flow, not by name): '
               'split into first/last n div 2 draws concatenated on the chain axis; per parameter B = h/(m-1) sum (mean_j - mean)^2, '
               'W = mean_j (1/d) sum_t (x_jt - mean_j)^2 with d in {h, h-1}, var+ = (h-1)/h W + B/h; R-hat = sqrt(var+/W) (orientation); '
               'RunStats::from / from_f32_view agree; basic_stats reports the ends of the sorted data in the direction of the sort, the element at '
               'len div 2, mean and ddof-1 standard deviation; the sort comparator is a total order (total_cmp), never partial_cmp with None mapped to Equal.')
TECHNIQUE = 'value-flow normal form vs specification table (role-located helpers, ndarray access canonicalisation)'
SAMPLE = S('sample')
R3 = {SAMPLE: 3}


def roles(ctx):
    """locate the helpers of split_rhat_mean_ess by data-flow role; returns dict role -> body or None"""
    A = 'stats::split_rhat_mean_ess'
    b = ctx.anchor(A, path='stats::split_rhat_mean_ess')
    if b is None:
        return None, None, None
    ev = ctx.evaluate(b, inline=False)
    ret = ev.ret_term
    out = {}
    try:
        assert ret[0] == 'tuple' and len(ret[1]) == 2
        r, e = ret[1]
        # E(split, W, V) with (W, V) = WV(split), split = S(sample); the R-hat component is R(W, V) through a helper, or the
        # ratio written in place (an inlined one-line helper)
        assert e[0] == 'app' and len(e[2]) == 3
        w, v = e[2][1], e[2][2]
        assert T.is_app(w) and w[1] == 'proj0' and T.is_app(v) and v[1] == 'proj1' and w[2][0] is v[2][0]
        wv = w[2][0]
        assert wv[0] == 'app' and len(wv[2]) == 1
        s = wv[2][0]
        assert s is e[2][0] and s[0] == 'app' and s[2] == (SAMPLE,)
        out = {'ess': e[1], 'withinvar': wv[1], 'split': s[1]}
        if r[0] == 'app' and len(r[2]) == 2 and r[2] == (w, v) and not r[1].startswith(('sqrt', 'div')) and '::' in r[1]:
            out['rhat'] = r[1]
        else:
            out['rhat'] = None
            ev.rhat_inline = (r, w, v)
    except (AssertionError, IndexError):
        return b, ev, None
    bodies = {}
    for role, key in out.items():
        if key is None:
            bodies[role] = 'inline'
            continue
        bs = [x for x in ctx.facts.bodies if x['def_kind'] in ('Fn', 'AssocFn') and strip_generics(x['path']) == key]
        bodies[role] = bs[0] if len(bs) == 1 else None
    return b, ev, bodies


def run(ctx):
    from .. import frame
    for nm, root, al in (('stats::split_rhat_mean_ess', ctx.anchor('split', path='stats::split_rhat_mean_ess'), {}), ('stats::basic_stats', ctx.anchor('bs', path='stats::basic_stats'), {}),
                         ('<RunStats as From<ArrayView3<T>>>::from', ctx.anchor('from', name='from', trait='std::convert::From', self_head='stats::RunStats'), {'narrow': 1})):
        if root is not None:
            narrowing_budget(ctx, 'C11', nm, [root], al, why='diagnostics are computed in f32 by design: the one conversion is the element-wise to_f32 at the RunStats::from entry point; a conversion to a fixed narrower float type (or an f64 -> element-type read-back) on this path changes values for wider element types / back ends', sp=root['sp'])
    frame.std_impls_derived(ctx, 'C11', ['stats::RunStats', 'stats::BasicStats'])
    A = 'stats::split_rhat_mean_ess'
    b, ev, bodies = roles(ctx)
    names = ['C11.wiring', 'C11.split', 'C11.B_W_varplus', 'C11.ratio']
    if b is None:
        for o in names:
            ctx.unknown(o, A, o.split('.')[1], why='anchor not found: pub fn stats::split_rhat_mean_ess')
    elif bodies is None or any(v is None for v in bodies.values()):
        ctx.unknown('C11.wiring', A, 'wiring', found=show(ev.ret_term), sp=b['sp'],
                    why='expected (R(W, V), E(split, W, V)) with (W, V) = WV(split), split = S(sample) over crate-local helpers')
        for o in names[1:]:
            ctx.unknown(o, A, o.split('.')[1], why='helpers not located')
    else:
        ctx.ok('C11.wiring', A, 'wiring', found=show(ev.ret_term), sp=b['sp'], expected='(R(W,V), E(S(sample), W, V)), (W,V)=WV(S(sample))',
               why='R-hat and ESS are computed from the same split array and the same (W, var+)')
        split(ctx, bodies['split'])
        withinvar(ctx, bodies['withinvar'])
        ratio(ctx, bodies['rhat'], ev)
    runstats(ctx)
    basic(ctx)


def split(ctx, b):
    A = 'split (helper of split_rhat_mean_ess)'
    ev = ctx.evaluate(b)
    found = canon_nd(ev.ret_term, R3)
    h = T.app('idiv', index_term(T.app('shape', SAMPLE), N(1)), N(2))
    first = sel(SAMPLE, STAR, T.app('to', h), STAR)
    second = sel(SAMPLE, STAR, T.app('from', T.neg(h)), STAR)
    exp = T.app('concatenate', AX(0), T.app('array', first, second))
    ctx.eq('C11.split', A, 'halves', found, exp, sp=b['sp'],
           why='each chain is split into its first and its LAST n div 2 draws (also for odd n), stacked as separate chains on axis 0')


def wv_forms(sample, divisors):
    """expected (W_k, V_k) per parameter k for the (m, h, p) array `sample`; one pair per admissible within-divisor"""
    m = index_term(T.app('shape', sample), N(0))
    h = index_term(T.app('shape', sample), N(1))
    k = S('k#p')
    X = sel(sample, STAR, STAR, k)
    cm = T.app('mean_axis', X, AX(1))
    overall = T.app('mean', cm)
    bb = T.mul(T.app('sum', T.powi(T.sub(cm, overall), 2)), T.div(h, T.sub(m, T.ONE)))
    out = []
    for d in divisors(h):
        c, t = S('k#c'), S('k#t')
        sq = T.div(T.app('sum', mk_comp(h, t, T.powi(T.sub(sel(sample, c, t, k), index_term(cm, c)), 2))), d)
        w = T.app('mean', mk_comp(m, c, sq))
        v = T.add(T.mul(T.div(T.sub(h, T.ONE), h), w), T.div(bb, h))
        out.append((k, w, v))
    return out


def withinvar(ctx, b):
    A = 'within/var+ (helper of split_rhat_mean_ess)'
    ev = ctx.evaluate(b)
    param = b['params'][0]['pat']['name'] if b['params'] and b['params'][0].get('pat', {}).get('k') == 'Binding' else 'sample'
    smp = S(param)
    found = canon_nd(ev.ret_term, {smp: 3})
    p = index_term(T.app('shape', smp), N(2))
    exps = []
    for k, w, v in wv_forms(smp, lambda h: (h, T.sub(h, T.ONE))):
        exps.append(T.tup(mk_comp(p, k, w), mk_comp(p, k, v)))
    ctx.eq('C11.B_W_varplus', A, '(W, var+)', found, exps[0], alts=exps[1:], sp=b['sp'],
           why='per parameter: B = h/(m-1) sum_j (mean_j - mean)^2, W = mean_j (1/d) sum_t (x_jt - mean_j)^2, var+ = (h-1)/h W + B/h')


def ratio(ctx, b, ev_top=None):
    A = 'R-hat ratio (helper of split_rhat_mean_ess)'
    if b == 'inline':
        r, w, v = ev_top.rhat_inline
        inverted = r is T.app('sqrt', T.div(w, v))
        ctx.eq('C11.ratio', A, 'rhat', r, T.app('sqrt', T.div(v, w)), sp=None, rule='ratio-inverted' if inverted else None,
               why='R-hat = sqrt(var+/W): never below sqrt((h-1)/h), grows without bound as chains move apart (W/var+ would tend to 0)')
        return
    ev = ctx.evaluate(b)
    ps = [p['pat']['name'] for p in b['params'] if p.get('pat', {}).get('k') == 'Binding']
    if len(ps) != 2:
        ctx.unknown('C11.ratio', A, 'rhat', why='expected two parameters (within, var)', sp=b['sp'])
        return
    w, v = S(ps[0]), S(ps[1])
    found = ev.ret_term
    inverted = found is T.app('sqrt', T.div(w, v))
    ctx.eq('C11.ratio', A, 'rhat', found, T.app('sqrt', T.div(v, w)), sp=b['sp'], rule='ratio-inverted' if inverted else None,
           why='R-hat = sqrt(var+/W): never below sqrt((h-1)/h), grows without bound as chains move apart (W/var+ would tend to 0)')


def runstats(ctx):
    A1 = '<RunStats as From<ArrayView3<T>>>::from'
    b1 = ctx.anchor(A1, name='from', trait='std::convert::From', self_head='stats::RunStats')
    b2 = ctx.anchor('RunStats::from_f32_view', name='from_f32_view', self_head='stats::RunStats', container='inherent')
    if b1 is None:
        ctx.unknown('C11.from', A1, 'value', why='anchor not found')
        return
    # private helpers (e.g. a shared from_f32_view) are inlined; the two public stages stay symbolic
    KEEP = ('stats::split_rhat_mean_ess', 'stats::basic_stats')
    ev1 = ctx.evaluate(b1, no_inline=KEEP, tag='entry')
    f1 = ev1.ret_term
    smp = S('sample')
    conv = [a for a in apps(f1, 'mapv')]
    src = conv[0] if conv else smp
    srm = [a for a in T.atoms(f1, lambda x: x[0] == 'app' and x[1] == 'stats::split_rhat_mean_ess')]
    bs = 'stats::basic_stats'
    ok = False
    if len(srm) == 1 and srm[0][2] == (src,):
        exp = T.app('adt:stats::RunStats', T.app('f:ess', T.app(bs, S('"ESS"'), T.proj(srm[0], 1))), T.app('f:rhat', T.app(bs, S('"Split R-hat"'), T.proj(srm[0], 0))))
        ok = f1 is exp
        convok = (not conv) or (conv[0][2][0] is smp and T.is_app(conv[0][2][1], 'lam1') and conv[0][2][1][2][0] is S('%b1'))
        ctx.check('C11.from', A1, 'value', ok and convok, found=show(f1), expected=show(exp), sp=b1['sp'],
                  why='run summary = basic_stats of the (rhat, ess) pair of the element-wise f32 image of the very sample passed in; ess from component 1, rhat from component 0')
    else:
        ctx.bad('C11.from', A1, 'value', found=show(f1), expected='RunStats{ess: basic_stats(srme(sample).1), rhat: basic_stats(srme(sample).0)}', sp=b1['sp'],
                why='diagnostics must be computed from the sample passed in')
    if b2 is not None:
        f2 = ctx.evaluate(b2, no_inline=KEEP, tag='entry').ret_term
        g1 = T.subst(f1, {src: smp})
        ctx.eq('C11.from_siblings', A1 + ' ~ RunStats::from_f32_view', 'agreement', f2, g1, sp=b2['sp'],
               why='the generic and the f32 entry point compute the same summary')


def basic(ctx):
    A = 'stats::basic_stats'
    b = ctx.anchor(A, path='stats::basic_stats')
    obs = ['C11.bs.comparator', 'C11.bs.min', 'C11.bs.max', 'C11.bs.median', 'C11.bs.mean', 'C11.bs.std']
    if b is None:
        for o in obs:
            ctx.unknown(o, A, o.split('.')[-1], why='anchor not found')
        return
    ev = ctx.evaluate(b)
    ret = ev.ret_term
    data = S('data')
    sorts = apps(ret, 'sorted_by') + apps(ret, 'sorted')
    if len(sorts) != 1 or sorts[0][2][0] is not data:
        for o in obs:
            ctx.unknown(o, A, o.split('.')[-1], why='expected the summary to be computed from one sort of the input data', sp=b['sp'], found=show(ret))
        return
    sd = sorts[0]
    name_terms(sorted=sd)
    a_, b_ = S('%b1'), S('%b2')      # comparator arguments (a, b) in lam2(lam1(...))
    direction = None
    if sd[1] == 'sorted_by':
        cm = sd[2][1]
        body = cm[2][0][2][0] if T.is_app(cm) and cm[1].startswith('lam') and T.is_app(cm[2][0]) and cm[2][0][1].startswith('lam') else None
        if body is T.app('total_cmp', b_, a_):
            direction = 'desc'
        elif body is T.app('total_cmp', a_, b_):
            direction = 'asc'
        nanbad = body is not None and any(T.is_app(x, 'partial_cmp') for x in T.subterms(body)) and any(
            T.is_app(x, 'adt:std::cmp::Ordering::Equal') for x in T.subterms(body))
        ctx.check('C11.bs.comparator', A, 'sort', direction is not None, expected='a total order on f32: |a, b| b.total_cmp(a) or a.total_cmp(b)',
                  found=show(body) if body is not None else show(cm), sp=b['sp'], rule='nan-comparator' if nanbad else None,
                  why='partial_cmp with None mapped to Equal makes NaN "equal" to everything: not a total order, slice::sort_by may panic; '
                      'undefined (NaN) diagnostics must never make the summary fail')
        if direction is None and body is not None:
            # keep checking positions with the direction the comparator would impose on non-NaN data
            pcs = [x for x in T.subterms(body) if T.is_app(x, 'partial_cmp')]
            if pcs and pcs[0][2] == (b_, a_):
                direction = 'desc'
            elif pcs and pcs[0][2] == (a_, b_):
                direction = 'asc'
    else:
        ctx.unknown('C11.bs.comparator', A, 'sort', why='slice::sort on f32 does not type-check; unexpected sort form', sp=b['sp'])
    first, last = T.app('first', sd), T.app('last', sd)
    if direction is None:
        for o in obs[1:3]:
            ctx.unknown(o, A, o.split('.')[-1], why='sort direction not established', sp=b['sp'])
    else:
        emin, emax = (last, first) if direction == 'desc' else (first, last)
        ctx.eq('C11.bs.min', A, 'min', fld(ret, 'min'), emin, sp=b['sp'], why='min is the small end of the sorted data (sort is %sending)' % direction)
        ctx.eq('C11.bs.max', A, 'max', fld(ret, 'max'), emax, sp=b['sp'], why='max is the large end of the sorted data (sort is %sending)' % direction)
    n = T.app('len', sd)
    half = T.app('idiv', n, N(2))
    ctx.eq('C11.bs.median', A, 'median', fld(ret, 'median'), index_term(sd, half), alts=[index_term(sd, T.app('idiv', T.sub(n, T.ONE), N(2)))], sp=b['sp'],
           why='median is a middle order statistic (element len div 2 of the sorted data)')
    ctx.eq('C11.bs.mean', A, 'mean', fld(ret, 'mean'), T.app('mean', sd), alts=[T.app('mean', data)], sp=b['sp'], why='arithmetic mean of the data')
    ctx.eq('C11.bs.std', A, 'std', fld(ret, 'std'), T.app('std', sd, N(1)), alts=[T.app('std', data, N(1))], sp=b['sp'], why='sample standard deviation (ddof = 1)')
