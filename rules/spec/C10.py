"""C10 — progress mode (DESIGN.md section 4/C10, Appendix A.C10)."""
from ..speclib import *
from ..facts import callee_key, walk
import re
from .. import typestate, thireq
from .C09 import run_chain_loop

TITLE = 'run_progress: same draws as run, diagnostics from the returned draws, non-fatal sends, final message, reporter exit test, back-end independent'
EXPLANATION = ('(1) sibling agreement: the progress variants have the same loop summaries as run (core::run_chain_progress ~ run_chain; HMC::run_progress ~ HMC::run; '
               'NUTSChain::run_progress = the documented one-draw offset of NUTSChain::run) and add only reads of the chain state; (2) the returned diagnostics are computed '
               'from the very array that is returned; (3) the Result of Sender::send in chain workers is handled locally (never ?/unwrap/expect); (4) the send guard contains '
               'k == total-1 with total the trip count, the reporter leaves its loop when n_finished >= number of channels and counts a chain as finished under stats.n == total; '
               '(5) the two reporter closures (core.rs, nuts.rs) are structurally identical; (6) no dtype-checked TensorData accessor whose element type is not syntactically the '
               'data\'s dtype reaches unwrap/expect. Termination under every interleaving is a liveness property and is NOT decided (the obligations in 4 are necessary, not sufficient).')
TECHNIQUE = 'sibling loop-summary agreement, result-discipline and typestate (TensorData dtype) analysis, structural equivalence of the reporter closures'
SEND = 'std::sync::mpsc::Sender::send'


def run(ctx):
    nc, nd = S('n_collect'), S('n_discard')
    from .. import frame
    frame.std_impls_derived(ctx, 'C10', ['stats::ChainTracker', 'stats::ChainStats', 'stats::MultiChainTracker', 'stats::RunStats', 'stats::BasicStats'])
    core_worker(ctx, nc, nd)
    nuts_worker(ctx, nc, nd)
    hmc_progress(ctx, nc, nd)
    reporters(ctx, nc, nd)
    stats_from_returned(ctx, nc, nd)
    dtype(ctx)
    tracker_total(ctx)
    no_sample_from_f32(ctx)
    for nm, root, al in (('ChainRunner::run_progress', ctx.anchor('rp', name='run_progress', trait='core::ChainRunner', container='trait'), {'narrow': 3}),
                         ('HMC::run_progress', ctx.anchor('hp', name='run_progress', self_head='hmc::HMC', container='inherent'), {'narrow': 4}),
                         ('NUTS::run_progress', ctx.anchor('np', name='run_progress', self_head='nuts::NUTS', container='inherent'), {'narrow': 6, 'numcast': 3})):
        if root is not None:
            narrowing_budget(ctx, 'C10', nm, [root], al, why='only the diagnostics side of progress mode works in f32 (tracker inputs, stats); every further narrowing risks the returned draws; a conversion to a fixed narrower float type (or an f64 -> element-type read-back) on this path changes values for wider element types / back ends', sp=root['sp'])


def send_rules(ctx, pfx, A, ev, ls, sp):
    sends = ev.events(lambda e: e.key == SEND)
    bad = [d for d in ev.vf.discipline if d[0] in ('try', 'unwrap') and any(d[1] is e.res or contains(d[1], e.res) for e in sends)]
    ctx.check(pfx + '.send', A, 'send-result', bool(sends) and not bad, expected='Result of tx.send(..) handled locally (if let Err / ignored), never `?`, unwrap or expect',
              found='%d send site(s); fatal consumers: %s' % (len(sends), [(d[0], d[2]) for d in bad]), sp=sp,
              why='a reporter that stopped listening must neither stop nor alter a chain worker')
    if ls is None or not sends:
        ctx.unknown(pfx + '.final_msg', A, 'final-message', why='send site / run loop not identified', sp=sp)
        return
    it = ls.var
    last = T.cmp('eq', it, T.sub(ls.n, T.ONE))
    okf = False
    for e in sends:
        if e in ls.events and len(e.pc) == 1:
            c = e.pc[0]
            disj = c[1] if c[0] == 'or' else (c,)
            if any(x is last for x in disj):
                okf = True
    ctx.check(pfx + '.final_msg', A, 'final-message', okf, expected='send guard is a disjunction containing k == total - 1 (total = the loop\'s trip count), not nested under further conditions',
              found='; '.join('[%s]' % ' & '.join(show(c) for c in e.pc) for e in sends), sp=sp,
              why='the reporter counts a chain as finished only when it sees stats.n == total: the last iteration must always report')


def core_worker(ctx, nc, nd):
    A = 'core::run_chain_progress'
    b = ctx.anchor(A, path='core::run_chain_progress')
    if b is None:
        ctx.unknown('C10.sib.core', A, 'anchor', why='anchor not found')
        return
    ev = ctx.evaluate(b)
    ret = assume_ok(ev.ret_term)
    r = run_chain_loop(ctx, 'C10.sib.core', A, ev, S('chain'), nc, nd, b['sp'], out_pick=lambda ls, k: ls.lx.get(k) is ret, allow_error_exits=True)
    ls = r[0] if r else None
    if r:
        ctx.eq('C10.sib.core.ret', A, 'return', ret, ls.lx[r[1]], why='returns the filled buffer (same as run_chain)', sp=b['sp'])
    send_rules(ctx, 'C10.core', A, ev, ls, b['sp'])
    ev2 = ctx.evaluate(b, no_inline=('stats::ChainTracker::new', 'stats::ChainTracker::step', 'stats::ChainTracker::stats'), tag='setup')
    tn = ev2.events(lambda e: e.key == 'stats::ChainTracker::new')
    cs = T.app('core::MarkovChain::current_state', S('chain'))
    okt = len(tn) == 1 and tn[0].args[0] is T.app('len', cs) and tn[0].args[1] is cs and not tn[0].loops
    ctx.check('C10.tracker_ctor.core', A, 'tracker', okt, expected='ChainTracker::new(len(chain.current_state()), chain.current_state()), once, before the loop',
              found='; '.join('(%s, %s)' % (show(e.args[0])[:80], show(e.args[1])[:80]) for e in tn) or 'no call', sp=b['sp'],
              why='a tracker built for another length rejects every state (shape check) and the worker returns Err where run_chain succeeds')


def nuts_worker(ctx, nc, nd):
    A = 'NUTSChain::run_progress'
    b = ctx.helper('nuts.chain_run_progress')
    if b is None:
        ctx.unknown('C10.sib.nuts', A, 'anchor', why='anchor not found')
        return
    ev = ctx.evaluate(b, no_inline=('nuts::NUTSChain::step', ctx.helper_key('nuts.fre', 'nuts::find_reasonable_epsilon')))
    sp = b['sp']
    ret = assume_ok(ev.ret_term)
    me = strip_generics(b['path'])
    steps = ev.events(lambda e: e.key == 'nuts::NUTSChain::step')
    loops = [ls for ls in ev.vf.loops if ls.kind == 'for' and not ls.ctx and any(e in ls.events for e in steps)]      # the loop that steps the chain (wherever it is written)
    if len(loops) != 1 or len(steps) != 1:
        ctx.unknown('C10.sib.nuts', A, 'loop', why='expected one run loop with one step (found %d loops, %d step sites)' % (len(loops), len(steps)), sp=sp)
        send_rules(ctx, 'C10.nuts', A, ev, None, sp)
        return
    ls = loops[0]
    it = ls.var
    ctx.check('C10.sib.nuts.count', A, 'count', ls.n is T.add(nc, nd) and ev.t(ls.elem) is it and all(e[0] == 'return' for e in ls.exits),
              expected='for i in 0..n_discard+n_collect (only error exits)', found='n=%s' % show(ls.n), sp=ls.sp,
              why='documented one-draw offset of NUTSChain::run: n_collect + n_discard transitions, row r after n_discard + r + 1')
    sk = [k for k in ls.lh if keyrepr(k) == 'self']
    okstep = len(sk) == 1 and ls.next[sk[0]] is T.app('post0', T.app('nuts::NUTSChain::step', ls.lh[sk[0]])) and not steps[0].pc
    ctx.check('C10.sib.nuts.step_once', A, 'step', okstep, expected='one unconditional self.step() per iteration, nothing else writes the chain', found=show(ls.next[sk[0]]) if sk else 'self not carried', sp=ls.sp,
              why='the progress variant adds only reads of the chain state')
    outs = [k for k in ls.lh if ls.lx.get(k) is ret]
    if len(outs) != 1 or not sk:
        ctx.unknown('C10.sib.nuts.guard_row_value', A, 'store', why='sample buffer not identified', sp=ls.sp)
    else:
        o = outs[0]
        pos0 = fld(S('self'), 'position')
        dim = index_term(T.app('dims', pos0), N(0))
        post = T.app('post0', T.app('nuts::NUTSChain::step', ls.lh[sk[0]]))
        r = T.sub(it, nd)
        exp = T.ite(T.icmp('ge', it, nd), T.app('slice_assign', ls.lh[o], T.app('array', T.app('range', r, T.add(r, T.ONE)), T.app('range', N(0), dim)), T.app('unsqueeze', fld(post, 'position'))), ls.lh[o])
        ctx.eq('C10.sib.nuts.guard_row_value', A, 'store', ls.next[o], exp, sp=ls.sp, why='store iff i >= n_discard at row i - n_discard the position after this iteration\'s step')
    send_rules(ctx, 'C10.nuts', A, ev, ls, sp)
    # tracker is fed the position after the step (reads only)
    tr = ev.events(lambda e: e.key == 'stats::ChainTracker::step')
    ctx.extra['nuts_tracker_steps'] = len(tr)
    nuts_worker_setup(ctx, nc, nd, b)


def nuts_worker_setup(ctx, nc, nd, b):
    """warm-up initialisation gets (n_collect, n_discard) in this order (as NUTSChain::run); the tracker is built for the chain's dimension"""
    A = 'NUTSChain::run_progress'
    ick = ctx.helper_key('nuts.init_chain', 'nuts::NUTSChain::init_chain')
    ev = ctx.evaluate(b, no_inline=('nuts::NUTSChain::step', ick, 'stats::ChainTracker::new', 'stats::ChainTracker::step'), tag='setup')
    ic = ev.events(lambda e: e.key == ick)
    ctx.check('C10.fwd.nuts_init', A, 'fwd', len(ic) == 1 and ic[0].args[1] is nc and ic[0].args[2] is nd and not ic[0].loops and not ic[0].pc,
              expected='init_chain(n_collect, n_discard), once, before the loop', found='; '.join('(%s, %s)' % (show(e.args[1]), show(e.args[2])) for e in ic) or 'no call', sp=b['sp'],
              why='swapped arguments make the progress variant adapt for n_collect iterations (sibling of C09.fwd.nuts_init)')
    tn = ev.events(lambda e: e.key == 'stats::ChainTracker::new')
    okt = False
    found = 'no ChainTracker::new'
    if len(tn) == 1 and ic:
        dimv = tn[0].args[0]
        found = 'ChainTracker::new(%s, ..)' % show(dimv)[:120]
        okt = dimv is T.proj(ic[0].res, 0) or dimv is index_term(T.app('dims', fld(S('self'), 'position')), N(0))
    ctx.check('C10.tracker_ctor.nuts', A, 'tracker', okt, expected='ChainTracker::new(dim, position): built for the dimension of the chain', found=found, sp=b['sp'],
              why='a tracker built for another length rejects every state (shape check) and the worker returns Err where run succeeds')


def hmc_progress(ctx, nc, nd):
    A = 'HMC::run_progress'
    b = ctx.anchor(A, name='run_progress', self_head='hmc::HMC', container='inherent')
    if b is None:
        ctx.unknown('C10.sib.hmc', A, 'anchor', why='anchor not found')
        return
    ev = ctx.evaluate(b, no_inline=('hmc::HMC::step', 'stats::MultiChainTracker::step', 'stats::MultiChainTracker::max_rhat', 'stats::MultiChainTracker::stats', 'stats::MultiChainTracker::new'))
    sp = b['sp']
    loops = [ls for ls in ev.vf.loops if ls.kind == 'for' and not ls.ctx and any(e.key == 'hmc::HMC::step' for e in ls.events)]
    if len(loops) != 2:
        ctx.unknown('C10.sib.hmc', A, 'loops', why='expected a discard loop and a collect loop (found %d stepping loops)' % len(loops), sp=sp)
        return
    l1, l2 = loops
    selfk = lambda ls: [k for k in ls.lh if keyrepr(k) == 'self']
    ok1 = l1.n is nd and not l1.exits and selfk(l1) and l1.next[selfk(l1)[0]] is T.app('post0', T.app('hmc::HMC::step', l1.lh[selfk(l1)[0]])) and l1.init[selfk(l1)[0]] is S('self')
    ctx.check('C10.sib.hmc.discard', A, 'discard', bool(ok1), expected='n_discard steps before collecting (as HMC::run)', found='n=%s' % show(l1.n), sp=l1.sp, why='same transitions as run')
    it = l2.var
    sk = selfk(l2)
    okc = l2.n is nc and ev.t(l2.elem) is it and not [e for e in l2.exits if e[0] != 'return'] and sk and l2.next[sk[0]] is T.app('post0', T.app('hmc::HMC::step', l2.lh[sk[0]])) \
        and l2.init[sk[0]] is l1.lx[selfk(l1)[0]]
    ctx.check('C10.sib.hmc.collect', A, 'collect', bool(okc), expected='n_collect iterations with one step each on the sampler itself', found='n=%s' % show(l2.n), sp=l2.sp, why='same transitions as run')
    ret = assume_ok(ev.ret_term)
    sample = ret[1][0] if ret[0] == 'tuple' and len(ret[1]) == 2 else None
    outs = [k for k in l2.lh if sample is not None and contains(sample, l2.lx[k])]
    if len(outs) != 1 or not sk:
        ctx.unknown('C10.sib.hmc.row', A, 'row', why='output buffer not identified', sp=l2.sp)
        return
    o = outs[0]
    pos0 = fld(S('self'), 'positions')
    disc_self = l1.lx[selfk(l1)[0]]
    dims_alts = [(index_term(T.app('dims', fld(x, 'positions')), N(0)), index_term(T.app('dims', fld(x, 'positions')), N(1))) for x in (S('self'), disc_self)]
    post = T.app('post0', T.app('hmc::HMC::step', l2.lh[sk[0]]))
    exps = [T.app('slice_assign', l2.lh[o], T.app('array', T.app('range', it, T.add(it, T.ONE)), T.app('range', N(0), a), T.app('range', N(0), d)),
                  T.app('unsqueeze_dim', fld(post, 'positions'), N(0))) for a, d in dims_alts]
    ctx.eq('C10.sib.hmc.row', A, 'row', l2.next[o], exps[0], alts=exps[1:], sp=l2.sp, why='iteration k stores the positions after its step at first-axis index k (as HMC::run)')
    ctx.eq('C10.sib.hmc.permute', A, 'permute', sample, T.app('permute', l2.lx[o], T.app('array', N(1), N(0), N(2))), sp=sp, why='[step, chain, dim] buffer returned as [chain, step, dim] (as HMC::run)')
    tn = ev.events(lambda e: e.key == 'stats::MultiChainTracker::new')
    okt = len(tn) == 1 and any(tn[0].args[0] is a and tn[0].args[1] is d for a, d in dims_alts)
    ctx.check('C10.tracker_ctor.hmc', A, 'tracker', okt, expected='MultiChainTracker::new(n_chains, dim) from the dims of self.positions, in this order', found='; '.join('(%s, %s)' % (show(e.args[0]), show(e.args[1])) for e in tn) or 'no call', sp=sp,
              why='a tracker built as (dim, n_chains) rejects every state unless n_chains == dim: run_progress fails where run succeeds')
    # error exits: run() cannot fail, so run_progress may fail only where the returned diagnostics themselves cannot be computed
    # (the final tracker.stats(sample)); a failure of the DISPLAY statistics (running R-hat: NaN with one chain) must not abort it
    errs = set()
    for t_ in [ev.ret_term] + [e[2] for l_ in ev.vf.loops for e in l_.exits if e[0] == 'return']:
        if isinstance(t_, T.Tm):
            for x in T.subterms(t_):
                if T.is_app(x, 'is:Err') and x[2]:
                    errs.add(x[2][0])
    bad_err = [y for y in errs if not T.is_app(y, 'stats::MultiChainTracker::stats')]
    ctx.check('C10.err_exits.hmc', A, 'error-exits', not bad_err, expected='the only error exit is the final tracker.stats(<returned sample>)',
              found='; '.join(show(y)[:100] for y in bad_err) or '%d error exit(s), all from the final stats' % len(errs), sp=sp,
              why='run() cannot fail: progress mode must not fail where run succeeds (e.g. max_rhat is an error for a single chain: NaN has no order)')
    st = ev.events(lambda e: e.key == 'stats::MultiChainTracker::stats')
    ctx.check('C10.stats_from_returned.hmc', A, 'stats', len(st) == 1 and st[0].args[1] is sample and ret[1][1] is st[0].res or (len(st) == 1 and st[0].args[1] is sample and assume_ok(ret[1][1]) is assume_ok(st[0].res)),
              expected='RunStats computed by tracker.stats(<the returned sample>)', found='%d stats call(s)' % len(st), sp=sp, why='diagnostics must equal those computed from the returned draws')


def reporter_signature(ev, rl, fkey=None):
    """protocol summary of a reporter: for the three places that decide termination -- the latest-message table (initialised with
    vec![None; n]), the finished counter (the one in the exit test) and the activation counter(s) (places stepped by one inside the
    polling loop) -- the set of their update terms over all loops of the reporter, alpha-renamed (loop numbers, variable names and
    the way the chains are reached do not matter).  Display state (bars, messages, the list of active bars, progress sums) is not part
    of it, so restructuring the display code of one copy is invisible; a change to how messages are stored, how completion is
    counted or how chains are activated in one copy only is not."""
    loops = [rl] + [ls for ls in ev.vf.loops if rl.uid in ls.ctx]
    roles = {}
    for k in rl.lh:
        i0 = rl.init.get(k)
        if isinstance(i0, T.Tm) and T.is_app(i0, 'repeat'):
            roles[keyrepr(k)] = 'LATEST'
    if fkey is not None:
        roles[keyrepr(fkey)] = 'FINISHED'
    for ls in loops:
        for k in ls.lh:
            nx = ls.next.get(k)
            if keyrepr(k) in roles or not isinstance(nx, T.Tm):
                continue
            inc = T.add(ls.lh[k], T.ONE)
            if nx is inc or (nx[0] == 'ite' and nx[2] is inc and nx[3] is ls.lh[k]) and any(keyrepr(k2) == keyrepr(k) for k2 in rl.lh):
                if isinstance(rl.init.get([k2 for k2 in rl.lh if keyrepr(k2) == keyrepr(k)][0]), T.Tm) and not T.is_num(rl.init[[k2 for k2 in rl.lh if keyrepr(k2) == keyrepr(k)][0]]):
                    roles[keyrepr(k)] = 'ACTIVATION'

    depth = {ls.uid: len(ls.ctx) - len(rl.ctx) for ls in loops}

    def canon_term(t):
        """rename at TERM level (so that the algebra's own ordering of conjuncts / monomials is the same in both copies):
        loop-numbered symbols become depth-numbered, role places get their role name, channels lose their number"""
        m = {}
        for x in T.subterms(t):
            if x[0] == 'sym':
                mm = re.match(r'l([hx])(\d+):(.*)$', x[1])
                if mm:
                    nm = roles.get(mm.group(3), mm.group(3))
                    m[x] = T.sym('l%s@%d:%s' % (mm.group(1), depth.get(int(mm.group(2)), 99), nm))
                    continue
                mm = re.match(r'it(\d+)$', x[1])
                if mm:
                    m[x] = T.sym('it@%d' % depth.get(int(mm.group(1)), 99))
            elif x[0] == 'app' and re.match(r'channel#\d+$', x[1]):
                m[x] = T.app('channel#')
            elif x[0] == 'app' and x[1] in ('chains_mut', '.chains') and len(x[2]) == 1:
                m[x] = T.sym('CHAINS')
        return T.subst(t, m) if m else t
    out = {r: set() for r in ('LATEST', 'FINISHED', 'ACTIVATION')}
    for ls in loops:
        for k in ls.lh:
            r = roles.get(keyrepr(k))
            nx = ls.next.get(k)
            if r is None or not isinstance(nx, T.Tm) or nx is ls.lh[k] or (nx[0] == 'sym' and nx[1].startswith('lx')):
                continue
            out[r].add(show(canon_term(nx)))
    return [(r, tuple(sorted(v))) for r, v in sorted(out.items())]


def activation(ctx, tag, A, ev, rl, fkey):
    """which chains the reporter watches.  Completion is counted only for chains in the table of active bars, so every chain must
    enter that table exactly once: the table starts with chains 0..m-1, the activation counter starts at m, and a finished entry is
    replaced by the chain the counter names BEFORE the counter is stepped (storing the stepped value skips a chain: it is never
    counted and the reporter never stops)."""
    if fkey is None:
        ctx.unknown('C10.activation.' + tag, A, 'active-table', why='finished counter not identified', sp=rl.sp)
        return
    inner = [ls for ls in ev.vf.loops if ls.ctx == (rl.uid,)]
    heads = {v: k for k, v in rl.lh.items()}
    akey = None
    for ls in inner:
        for k in ls.lh:
            if keyrepr(k) == keyrepr(fkey) and isinstance(ls.next.get(k), T.Tm):
                for x in T.subterms(ls.next[k]):
                    if T.is_app(x, 'proj0') and T.is_app(x[2][0], 'index') and x[2][0][2][0] in heads:
                        akey = heads[x[2][0][2][0]]
    if akey is None:
        ctx.unknown('C10.activation.' + tag, A, 'active-table', why='the table of watched chains (read by the completion count) was not identified', sp=rl.sp)
        return
    a0 = strip_eff(rl.init.get(akey)) if isinstance(rl.init.get(akey), T.Tm) else None
    kk = S('k#act')
    ok_init = a0 is not None and T.is_app(a0, 'comp') and T.proj(index_term(a0, kk), 0) is kk
    # the activation counter: stepped by one under the same condition under which an entry of the table is overwritten
    ok_rep, found = False, 'no replacement of a table entry found'
    for ls in inner:
        ak = [k for k in ls.lh if keyrepr(k) == keyrepr(akey)]
        if not ak or not isinstance(ls.next.get(ak[0]), T.Tm):
            continue
        nx = ls.next[ak[0]]
        if nx[0] == 'ite' and T.is_app(nx[2], 'upd') and nx[2][2][0] is ls.lh[ak[0]] and nx[3] is ls.lh[ak[0]]:
            stored = T.proj(nx[2][2][2], 0)
            cnt = [k for k in ls.lh if k is not ak[0] and isinstance(ls.next.get(k), T.Tm) and ls.next[k] is T.ite(nx[1], T.add(ls.lh[k], T.ONE), ls.lh[k])]
            found = 'entry := (%s, ..) under %s; counters stepped under the same condition: %s' % (show(stored), show(nx[1])[:120], [keyrepr(k) for k in cnt])
            if len(cnt) == 1 and stored is ls.lh[cnt[0]]:
                ck = [k for k in rl.lh if keyrepr(k) == keyrepr(cnt[0])]
                bound = any(c is T.cmp('lt', ls.lh[cnt[0]], T.app('len', x)) or c is T.cmp('lt', ls.lh[cnt[0]], x) for c in conjuncts(nx[1]) for x in T.subterms(c))
                ok_rep = bool(ck) and a0 is not None and rl.init[ck[0]] is seq_len(a0) and bound
                found += '; counter starts at %s' % (show(rl.init[ck[0]]) if ck else '?')
    # entries leave the table only after they were counted: the per-tick flag table is set exactly under the finished guard, the
    # replacement and the removal list are both conditioned on the entry's flag, and flagged entries that are not replaced are
    # removed from the highest index down (removing in ascending order shifts the later ones: an unfinished chain would leave)
    flagk, guard = None, None
    for ls in inner:
        for k in ls.lh:
            nx, fk = ls.next.get(k), [k2 for k2 in ls.lh if keyrepr(k2) == keyrepr(fkey)]
            if isinstance(nx, T.Tm) and nx[0] == 'ite' and T.is_app(nx[2], 'upd') and nx[2][2][0] is ls.lh[k] and nx[2][2][1] is ls.var and nx[2][2][2] is T.TRUE and nx[3] is ls.lh[k] \
                    and fk and isinstance(ls.next.get(fk[0]), T.Tm) and ls.next[fk[0]] is T.ite(nx[1], T.add(ls.lh[fk[0]], T.ONE), ls.lh[fk[0]]):
                flagk, guard = (ls, k), nx[1]

    def leaf_paths(t, conds=()):
        if isinstance(t, T.Tm) and t[0] == 'ite':
            yield from leaf_paths(t[2], conds + (t[1],))
            yield from leaf_paths(t[3], conds + (T.lnot(t[1]),))
        else:
            yield conds, t
    ok_leave, found_leave = False, 'per-tick flag table (set together with the completion count) not identified'
    if flagk is not None:
        fl_, fk_ = flagk
        TR = fl_.lx.get(fk_)
        found_leave = 'no removal of flagged entries found'
        for ls in inner:
            ak = [k for k in ls.lh if keyrepr(k) == keyrepr(akey)]
            if not ak or not isinstance(ls.next.get(ak[0]), T.Tm):
                continue
            if ls.var is None:
                continue
            flag_i = index_term(TR, ls.var) if TR is not None else None
            # every write of this loop to the table or to a list of indices happens on a path on which the entry's flag is set
            writes_ok = True
            for k in ls.lh:
                nx = ls.next.get(k)
                if not isinstance(nx, T.Tm) or nx is ls.lh[k] or not (k is ak[0] or any(T.is_app(l_, 'push') for _, l_ in leaf_paths(nx))):
                    continue
                for conds, leaf in leaf_paths(nx):
                    if leaf is ls.lh[k]:
                        continue
                    flagged = any(c_ is flag_i for c in conds for c_ in conjuncts(c))
                    if not flagged or (T.is_app(leaf, 'push') and leaf[2][1] is not ls.var):
                        writes_ok = False
            if ls.next[ak[0]][0] == 'ite' and T.is_app(ls.next[ak[0]][2], 'upd'):
                rep_ok = writes_ok
                rml = [k for k in ls.lh if any(T.is_app(l_, 'push') for _, l_ in leaf_paths(ls.next[k])) if isinstance(ls.next.get(k), T.Tm)]
                # the removal loop: over the (sorted) list built here, from the last entry to the first
                for l2 in inner:
                    a2 = [k for k in l2.lh if keyrepr(k) == keyrepr(akey)]
                    if not a2 or not T.is_app(l2.next.get(a2[0]), 'removed'):
                        continue
                    rm = l2.next[a2[0]]
                    lists = [T.app('sorted', ls.lx[k]) for k in rml if isinstance(ls.lx.get(k), T.Tm)] + [ls.lx[k] for k in rml if isinstance(ls.lx.get(k), T.Tm)]
                    desc = l2.var is not None and any(rm[2][0] is l2.lh[a2[0]] and l2.n is T.app('len', L) and rm[2][1] is index_term(L, T.sub(T.sub(T.app('len', L), T.ONE), l2.var)) for L in lists)
                    # ... or popped off the back of the (sorted) list until it is empty: `while let Some(i) = list.pop() { table.remove(i) }`
                    for k3 in l2.lh:
                        pop = T.app('std::vec::Vec::pop', l2.lh[k3])
                        if l2.kind == 'loop' and any(l2.init.get(k3) is L for L in lists) and l2.next.get(k3) is T.app('post0', pop) and rm[2][0] is l2.lh[a2[0]] and rm[2][1] is pop \
                                and len(l2.exits) == 1 and l2.exits[0][2] is T.lnot(T.app('is:Some', pop)):
                            desc = True
                    ok_leave = rep_ok and desc and len(rml) == 1
                    found_leave = 'writes conditioned on the entry flag: %s; removal %s' % (rep_ok, show(rm)[:160])
    ctx.check('C10.activation.leave.' + tag, A, 'active-table-leave', ok_leave,
              expected='entries are replaced or listed for removal only when flagged this tick (flag set together with the completion count), and listed entries are removed from the highest index down',
              found=found_leave, sp=rl.sp,
              why='a watched chain that leaves the table before it was counted is never counted: the reporter (hence run_progress) never returns')
    ctx.check('C10.activation.' + tag, A, 'active-table', ok_init and ok_rep,
              expected='watched chains start as 0..m-1 with the activation counter at m; a finished entry is replaced by (counter, ..) and the counter stepped by one under one and the same condition (counter < number of chains), the stored index being the counter BEFORE the step',
              found=('initial table %s; ' % (show(a0)[:80] if a0 is not None else '?')) + found, sp=rl.sp,
              why='completion is counted only for watched chains: a chain that never enters the table is never counted and the reporter (hence run_progress) never returns')


def find_spawn_closure(ctx, body):
    out = []

    def f(n):
        if n.get('k') == 'Call' and n.get('fn') and callee_key(n['fn']) == 'std::thread::spawn' and n.get('args'):
            a = n['args'][0]
            while isinstance(a, dict) and a.get('k') in ('Borrow', 'Deref', 'Coerce'):
                a = a['e']
            if isinstance(a, dict) and a.get('k') == 'Closure':
                out.append(a)
    walk(body.get('thir'), f)
    return out


def reporters(ctx, nc, nd):
    bs = {'core': ctx.anchor('ChainRunner::run_progress', name='run_progress', trait='core::ChainRunner', container='trait'),
          'nuts': ctx.anchor('NUTS::run_progress', name='run_progress', self_head='nuts::NUTS', container='inherent')}
    canon = {}
    sigs = {}
    for tag, b in bs.items():
        A = {'core': 'ChainRunner::run_progress', 'nuts': 'NUTS::run_progress'}[tag]
        if b is None:
            ctx.unknown('C10.exit.' + tag, A, 'anchor', why='anchor not found')
            continue
        cl = find_spawn_closure(ctx, b)
        if len(cl) != 1:
            ctx.unknown('C10.exit.' + tag, A, 'reporter', why='expected one thread::spawn(closure) reporter (found %d)' % len(cl), sp=b['sp'])
            continue
        cb = ctx.facts.body(cl[0]['def'])
        no_inl = ('core::run_chain_progress', 'stats::collect_rhat', ctx.helper_key('nuts.chain_run_progress', 'nuts::NUTSChain::run_progress'), 'stats::split_rhat_mean_ess', 'stats::basic_stats')
        ev = ctx.evaluate(b, no_inline=no_inl)
        owner = [ls for ls in ev.vf.loops if ls.kind == 'loop' and (ls.owner or '').endswith('{spawned}') and not ls.ctx]
        if len(owner) != 1:
            ctx.unknown('C10.exit.' + tag, A, 'reporter-loop', why='expected one polling loop in the reporter (found %d)' % len(owner), sp=b['sp'])
            continue
        rl = owner[0]
        chans = ev.events(lambda e: e.op == 'channel')
        # number of channels: trip count of the loop that creates them
        nch = None
        for e in chans:
            if e.loops:
                from ..effects import loop_by_uid
                nch = loop_by_uid(ev, e.loops[-1]).n
        fin = [k for k in rl.lh if isinstance(rl.init.get(k), T.Tm) and rl.init[k] is T.ZERO]
        exits = [e for e in rl.exits if e[0] == 'break']
        okexit = False
        fkey = None
        for k in fin:
            for e in exits:
                cond = e[2]
                nx = rl.next[k]
                for lim in ([nch] if nch is not None else []):
                    for cnt in (nx, rl.lh[k]):
                        if cond is T.icmp('ge', cnt, lim) or cond is T.icmp('ge', cnt, T.app('len', T.app('repeat', S('None'), lim))):
                            okexit, fkey = True, k
                # len(most_recent) where most_recent = vec![None; n_channels]
                for k2 in rl.lh:
                    i2 = rl.init.get(k2)
                    if isinstance(i2, T.Tm) and T.is_app(i2, 'repeat') and nch is not None and i2[2][1] is nch:
                        for mr in (rl.lh[k2], rl.next[k2] if isinstance(rl.next[k2], T.Tm) else None):
                            if mr is None:
                                continue
                            for cnt in (nx, rl.lh[k]):
                                if cond is T.icmp('ge', cnt, T.app('len', mr)):
                                    okexit, fkey = True, k
        ctx.check('C10.exit.' + tag, A, 'exit-test', okexit and len(exits) == 1, expected='single exit: break when n_finished >= number of channels (= number of chains)',
                  found='; '.join(show(e[2]) for e in exits), sp=rl.sp, why='necessary for termination: the reporter must stop once every chain has reported completion, also with more chains than bars')
        # finished counter increments under stats.n == total
        okfin = False
        total = T.add(nc, nd)
        if fkey is not None:
            inner = [ls for ls in ev.vf.loops if ls.ctx == (rl.uid,) and any(keyrepr(k) == keyrepr(fkey) for k in ls.lh)]
            for ls in inner:
                for k in ls.lh:
                    if keyrepr(k) != keyrepr(fkey):
                        continue
                    nx = ls.next[k]
                    # ite(is:Some(s), ite(total - s.n == 0, 1 + lh, lh), lh)
                    # ite(is:Some(s) && [s.n == total], 1 + lh, lh)   (flattened guard; the nested spelling normalises to it)
                    if nx[0] == 'ite' and nx[3] is ls.lh[k] and nx[2] is T.add(ls.lh[k], T.ONE):
                        cs = conjuncts(nx[1])
                        eqs = [c for c in cs if c[0] == 'cmp' and c[1] == 'eq']
                        rest = [c for c in cs if c not in eqs]
                        stats_n = [x for c in eqs for x in T.subterms(c) if T.is_app(x, '.n')]
                        if len(eqs) == 1 and stats_n and eqs[0] is T.cmp('eq', stats_n[0], total) and all(T.is_app(c) and c[1].startswith('is:') for c in rest):
                            okfin = True
        sigs[tag] = reporter_signature(ev, rl, fkey)
        activation(ctx, tag, A, ev, rl, fkey)
        ctx.check('C10.finished_guard.' + tag, A, 'finished-guard', okfin, expected='n_finished += 1 exactly when the most recent stats of an active chain have n == n_collect + n_discard',
                  found='counter %s' % (keyrepr(fkey) if fkey else 'not identified'), sp=rl.sp, why='completion accounting must match the final message sent by the workers')
    if len(sigs) == 2:
        a, b_ = sigs['core'], sigs['nuts']
        d = None
        for i in range(max(len(a), len(b_))):
            x, y = (a[i] if i < len(a) else None), (b_[i] if i < len(b_) else None)
            if x != y:
                d = (i, x, y)
                break
        ctx.check('C10.reporters_equal', 'ChainRunner::run_progress ~ NUTS::run_progress', 'reporter', d is None,
                  expected='the two reporters update the latest-message table, the finished counter and the activation counter in the same way (update terms of these places over all loops, alpha-renamed); display state is not compared',
                  found='equal: %s' % ', '.join('%s %d update(s)' % (r, len(v)) for r, v in a) if d is None else 'difference for %s: %s vs %s' % (d[1][0] if d[1] else d[2][0], str(d[1])[:300], str(d[2])[:300]),
                  why='the protocol is implemented twice; a change to one copy only is reported (compared on value-flow normal forms, so helper extraction or re-binding in one copy is invisible)')


def stats_from_returned(ctx, nc, nd):
    # ChainRunner::run_progress
    A = 'ChainRunner::run_progress'
    b = ctx.anchor(A, name='run_progress', trait='core::ChainRunner', container='trait')
    fromkey = '<stats::RunStats as std::convert::From<ndarray::ArrayBase<ndarray::ViewRepr<&T>, ndarray::Dim<[usize; 3]>>>>::from'
    if b is not None:
        ev = ctx.evaluate(b, no_inline=('core::run_chain_progress', 'stats::collect_rhat', fromkey), tag='sfr')
        ret = assume_ok(ev.ret_term)
        st = ev.events(lambda e: e.key == 'std::convert::From::from' and e.fn and 'RunStats' in (e.fn.get('resolved_path') or ''))
        ok = ret[0] == 'tuple' and len(ret[1]) == 2 and len(st) == 1 and st[0].args[0] is ret[1][0] and ret[1][1] is st[0].res
        ctx.check('C10.stats_from_returned.core', A, 'stats', ok, expected='(sample, RunStats::from(sample.view()))', found=show(ret)[:300], sp=b['sp'],
                  why='diagnostics must equal those computed from the returned draws')
        errs = set()
        for t_ in [ev.ret_term] + [e[2] for l_ in ev.vf.loops for e in l_.exits if e[0] == 'return']:
            if isinstance(t_, T.Tm):
                for x in T.subterms(t_):
                    if T.is_app(x, 'is:Err') and x[2]:
                        errs.add(x[2][0])
        bad_err = [y for y in errs if not T.is_app(y, 'stack')]
        ctx.check('C10.err_exits.core', A, 'error-exits', not bad_err, expected='the only error exit is the stacking of the per-chain results (as in run)',
                  found='; '.join(show(y)[:100] for y in bad_err) or '%d error exit(s), all from stacking the results' % len(errs), sp=b['sp'],
                  why='progress mode must not fail where run succeeds: a failure of the display statistics must not abort it')
        collect_rule(ctx, 'C10.collect.core', A, ev, ret, b, 'core::run_chain_progress', 'chains_mut(self)', lambda R: T.app('stack', AX(0), R))
        # per-chain results in chain order, workers get (chain_c, tx_c)
        workers = ev.events(lambda e: e.key == 'core::run_chain_progress')
        okw = len(workers) == 1 and workers[0].args[1] is nc and workers[0].args[2] is nd
        ctx.check('C10.fwd.core', A, 'fwd', okw, expected='run_chain_progress(chain, n_collect, n_discard, tx)', found='; '.join(show(a) for e in workers for a in e.args[1:3]), sp=b['sp'],
                  why='arguments forwarded in order')
    A = 'NUTS::run_progress'
    b = ctx.anchor(A, name='run_progress', self_head='nuts::NUTS', container='inherent')
    if b is not None:
        crp = ctx.helper_key('nuts.chain_run_progress', 'nuts::NUTSChain::run_progress')
        ev = ctx.evaluate(b, no_inline=(crp, 'stats::collect_rhat', fromkey), tag='sfr')
        ret = assume_ok(ev.ret_term)
        st = ev.events(lambda e: e.key == 'std::convert::From::from' and e.fn and 'RunStats' in (e.fn.get('resolved_path') or ''))
        ok = False
        if ret[0] == 'tuple' and len(ret[1]) == 2 and len(st) == 1:
            smp = ret[1][0]
            arg = st[0].args[0]
            ok = ret[1][1] is st[0].res and (arg is smp or arg is T.app('from_shape', T.app('dims', smp), smp))
        ctx.check('C10.stats_from_returned.nuts', A, 'stats', ok, expected='(sample, RunStats::from(view of sample))', found=show(ret)[:300], sp=b['sp'],
                  why='diagnostics must equal those computed from the returned draws')
        collect_rule(ctx, 'C10.collect.nuts', A, ev, ret, b, crp, 'self.chains', lambda R: T.app('stack_t', R, N(0)))
        workers = ev.events(lambda e: e.key == crp)
        okw = len(workers) == 1 and workers[0].args[1] is nc and workers[0].args[2] is nd
        ctx.check('C10.fwd.nuts', A, 'fwd', okw, expected='chain.run_progress(n_collect, n_discard, tx)', found='; '.join(show(a) for e in workers for a in e.args[1:3]), sp=b['sp'],
                  why='arguments forwarded in order')


def collect_rule(ctx, oid, A, ev, ret, b, workerkey, chains_name, stackf):
    """the returned sample is the stack (chain axis 0) of one worker result per chain, in chain order; one channel per chain,
    sender c handed to chain c, receivers kept in the same order"""
    forced = [ls for ls in ev.vf.loops if ls.kind == 'forced' and not ls.ctx and any(e.key == workerkey for e in ls.events)]
    chan = [ls for ls in ev.vf.loops if ls.kind in ('for', 'forced') and not ls.ctx and any(e.op == 'channel' for e in ls.events)]
    ok = False
    found = show(ret[1][0])[:300] if ret[0] == 'tuple' else show(ret)[:300]
    if len(forced) == 1 and len(chan) == 1 and ret[0] == 'tuple':
        fl, cl = forced[0], chan[0]
        ck = [k for k in fl.lh if keyrepr(k) == chains_name]
        ch = [e for e in cl.events if e.op == 'channel']
        if len(ck) == 1 and len(ch) == 1:
            chains0 = fl.init[ck[0]]
            nchains = seq_len(chains0)
            c = ch[0].res
            if cl.kind == 'for':
                # push form: two Vecs started empty, one sender and one receiver pushed per iteration
                txk = [k for k in cl.lh if cl.next[k] is T.app('push', cl.lh[k], T.app('tx', c))]
                rxk = [k for k in cl.lh if cl.next[k] is T.app('push', cl.lh[k], T.app('rx', c))]
                okpair = len(txk) == 1 and len(rxk) == 1 and cl.init[txk[0]] is T.app('array') and cl.init[rxk[0]] is T.app('array')
            else:
                # map(|_| channel()).unzip() form: one (sender, receiver) pair per iteration
                rt = getattr(cl, 'result_term', None)
                okpair = rt is not None and rt[0] == 'tuple' and set(rt[1]) == {T.app('tx', c), T.app('rx', c)} and len(rt[1]) == 2
            w = [e for e in fl.events if e.key == workerkey]
            okchan = cl.n is nchains and not cl.exits and okpair
            okwork = len(w) == 1 and fl.n is nchains and w[0].args[0] is index_term(fl.lh[ck[0]], fl.var) and w[0].args[3] is T.app('tx', c) and not w[0].pc \
                and fl.next[ck[0]] is T.app('upd', fl.lh[ck[0]], fl.var, T.app('post0', w[0].res))
            R = T.app('eff', mk_comp(fl.n, fl.var, w[0].res), S('loop%d' % fl.uid)) if w else None
            ok = okchan and okwork and R is not None and strip_eff(ret[1][0]) is strip_eff(stackf(R))
            found = 'channels: n=%s ok=%s; workers: n=%s ok=%s; sample=%s' % (show(cl.n), okchan, show(fl.n), okwork, found)
    ctx.check(oid, A, 'collect', ok, expected='one channel per chain (n = number of chains); worker c runs chain c in place with sender c; results stacked on the chain axis in chain order', found=found, sp=b['sp'],
              why='run_progress returns a [n_chains, n_collect, dim] array whose row c belongs to chain c (as run does); a missing channel silently drops a chain')


def no_sample_from_f32(ctx):
    """the f32 copies made for the trackers never come back: no tensor is built from f32-typed host data anywhere on the progress paths
    (numeric conversions are value aliases in the term algebra, so this flow is checked on types)"""
    roots = [ctx.anchor('hp', name='run_progress', self_head='hmc::HMC', container='inherent'), ctx.anchor('np', name='run_progress', self_head='nuts::NUTS', container='inherent')]
    bodies = reachable_bodies(ctx, [r for r in roots if r is not None])
    hits = []

    def visit(root, b):
        def f(n):
            if n.get('k') == 'Call' and n.get('fn') and callee_key(n['fn']) in ('burn::tensor::Tensor::from_floats', 'burn::tensor::Tensor::from_data', 'burn::tensor::TensorData::new', 'burn::tensor::TensorData::from'):
                a = (n.get('args') or [{}])[0]
                ty = str(a.get('ty', ''))
                if re.search(r'\bf32\b', ty):
                    hits.append('%s: %s(%s) at %s' % (strip_generics(root['path']), callee_key(n['fn']).split('::')[-1], ty, n.get('sp')))
        walk(b.get('thir'), f)
        for c in ctx.facts.children.get(b['did'], []):
            if c['def_kind'] == 'Closure':
                visit(root, c)
    for b in bodies:
        visit(b, b)
    ctx.check('C10.sample_from_f32', 'HMC / NUTS run_progress', 'f32-round-trip', not hits and bool(bodies), expected='no tensor constructed from f32-typed host data on the progress paths (%d bodies scanned)' % len(bodies),
              found='; '.join(hits) or 'none', sp=None,
              why='the trackers are fed f32 copies of the state; a tensor rebuilt from such a copy puts f32-rounded values into the returned draws on wider back ends')


def tracker_total(ctx):
    """the streaming trackers fed by the progress workers accept every state of the right length: their only Err exit is the
    shape check (a function of the length alone, and the length is the one the tracker was built with)"""
    for A, head in (('ChainTracker::step', 'stats::ChainTracker'), ('MultiChainTracker::step', 'stats::MultiChainTracker')):
        b = ctx.anchor(A, name='step', self_head=head, container='inherent')
        if b is None:
            ctx.unknown('C10.tracker_total', A, 'anchor', why='anchor not found')
            continue
        ev = ctx.evaluate(b)
        bad, n_err = [], 0
        # walk the ite tree of the result with the path condition; a non-unit leaf is acceptable only on a path where the shape
        # check failed (is:Err(from_shape(..)) holds): what is returned there (err_of, a converted or re-wrapped error) is irrelevant
        stack = [(ev.ret_term, False)]
        while stack:
            t, shape_failed = stack.pop()
            if t[0] == 'ite':
                c = t[1]
                is_shape = T.is_app(c, 'is:Err') and T.is_app(c[2][0], 'from_shape')
                stack.append((t[2], shape_failed or is_shape))
                stack.append((t[3], shape_failed))
            elif t is T.tup():
                pass
            elif shape_failed or any(T.is_app(x, ('payload:Err', 'err_of')) and T.is_app(x[2][0], 'from_shape') for x in T.subterms(t)):
                # (a value built from the payload of the shape error exists only in the arm where the shape check failed)
                n_err += 1
            else:
                bad.append(t)
        ctx.check('C10.tracker_total', A, 'err-exits', not bad, expected='Ok(()) on every path except the shape check of the incoming state', found='value-dependent result(s): ' + '; '.join(show(x)[:120] for x in bad) if bad else '%d shape-check exit(s), otherwise Ok(())' % n_err,
                  sp=b['sp'], why='the worker propagates a tracker error and run_progress panics on it: a tracker that rejects some chain states makes run_progress fail where run succeeds')


def dtype(ctx):
    sites = typestate.accessor_sites(ctx.facts)
    ctx.extra['tensordata_accessor_sites'] = len(sites)
    if len(sites) < 1:
        ctx.unknown('C10.dtype.floor', 'crate', 'sites', why='only %d checked TensorData accessor sites found (floor 1): the rule would pass vacuously' % len(sites))
    seen = {}
    for s_ in sites:
        slot = s_['slot']
        n = seen.get((s_['fn'], slot), 0)
        seen[(s_['fn'], slot)] = n + 1
        if n:
            slot = '%s#%d' % (slot, n + 1)
        desc = '%s::<%s>() on data of dtype %s, consumed by %s' % (s_['accessor'], s_['E'], s_['dtype'], s_['consumer'])
        if s_['state'] == 'MayErr' and s_['consumer'] == 'unwrap':
            ctx.bad('C10.dtype', s_['fn'], slot, rule='dtype-unwrap', expected='data converted to the accessed element type first (.convert::<E>()) or the error propagated',
                    found=desc, sp=s_['sp'], why='the accessor returns Err(TypeMismatch) unless E is the data\'s dtype: unwrap panics for back ends with another element type (e.g. NdArray<f64>)')
        elif s_['state'] == 'MayErr' and s_['consumer'] not in ('try', 'match', 'handled'):
            ctx.unknown('C10.dtype', s_['fn'], slot, why='fate of a possibly failing accessor not recognised: ' + desc, sp=s_['sp'])
        else:
            ctx.ok('C10.dtype', s_['fn'], slot, expected='no MayErr accessor reaches unwrap/expect', found=desc, sp=s_['sp'], why='dtype typestate')
