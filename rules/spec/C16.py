"""C16 — Categorical distribution (DESIGN.md section 4/C16, Appendix A.C16)."""
from ..speclib import *
import re

TITLE = 'Categorical: normalised probabilities, exact logp, inverse-CDF scan never selects a zero-probability category'
EXPLANATION = ('Value-flow normal forms of Categorical::new (probs_i = w_i / sum_j w_j), Discrete::logp (index guard, ln p_i, -inf), '
               'the Target<usize> forwarder, and the loop summary of Discrete::sample: one StandardUniform variate r from the '
               'distribution\'s own generator, cumulative scan in index order, a STRICT selection comparison r < cum (with the half-open '
               'variate r in [0,1) a closed comparison selects a zero-probability first category at r = 0), result is the scan index or len-1. '
               'Sample frequencies and the floating-point fallback case are not decided.')
TECHNIQUE = 'value-flow normal form + loop summary (exit condition, exit state) vs specification table'
OBS = ['C16.new.norm', 'C16.logp', 'C16.target_fwd', 'C16.sample.variate', 'C16.sample.scan_order', 'C16.sample.strict',
       'C16.sample.result_is_index', 'C16.sample.fallback_in_range']
CAT = 'distributions::Categorical'


def run(ctx):
    from .. import frame
    _roots = [b for b in ctx.facts.bodies if ctx.facts.is_hand_written(b) and b['def_kind'] in ('Fn', 'AssocFn') and 'distributions::Categorical' in b['path'] and '::tests::' not in b['path']]
    narrowing_budget(ctx, 'C16', 'distributions::Categorical', _roots, {}, why='probabilities, cumulative sums and the variate live in one element type: a value computed in a wider type and converted can round onto a boundary (e.g. a uniform rounding up to 1.0); a conversion to a fixed narrower float type (or an f64 -> element-type read-back) on this path changes values for wider element types / back ends', sp=None)
    frame.shadowing(ctx, 'C16', [CAT])
    frame.check_frame(ctx, 'C16', CAT, {'probs': {CAT + '::new'}, 'rng': {CAT + '::new', '<distributions::Categorical<T> as distributions::Discrete<T>>::sample'}},
                      why='probabilities are normalised once, at construction; any later writer can break normalisation')
    # ---- new
    A = 'Categorical::new'
    b = ctx.anchor(A, name='new', self_head=CAT, container='inherent')
    if b is None:
        ctx.unknown('C16.new.norm', A, 'norm', why='anchor not found')
    else:
        ev = ctx.evaluate(b)
        w = S('probs')
        n = T.app('len', w)
        k1, k2 = S('k#a'), S('k#b')
        total = T.app('sum', mk_comp(n, k1, index_term(w, k1)))
        exp = mk_comp(n, k2, T.div(index_term(w, k2), total))
        found = fld(ev.ret_term, 'probs')
        ctx.eq('C16.new.norm', A, 'norm', found, exp, why='stored probabilities are w_i / sum_j w_j (sum to one)', sp=b['sp'])

    # ---- logp
    A = '<Categorical as Discrete>::logp'
    b = ctx.anchor(A, name='logp', trait='distributions::Discrete', self_head=CAT)
    probs = selff('probs')

    def logp_form(idx):
        return T.ite(T.cmp('lt', idx, T.app('len', probs)), T.app('ln', index_term(probs, idx)), T.neg(S('inf')))

    if b is None:
        ctx.unknown('C16.logp', A, 'value', why='anchor not found')
    else:
        ev = ctx.evaluate(b)
        ctx.eq('C16.logp', A, 'value', ev.ret_term, logp_form(S('index')), why='ln p_i for valid indices, -inf otherwise', sp=b['sp'])
    A = '<Categorical as Target<usize>>::unnorm_logp'
    b = ctx.anchor(A, name='unnorm_logp', trait='distributions::Target', self_head=CAT)
    if b is None:
        ctx.unknown('C16.target_fwd', A, 'value', why='anchor not found')
    else:
        ev = ctx.evaluate(b)
        ctx.eq('C16.target_fwd', A, 'value', ev.ret_term, logp_form(index_term(S('position'), N(0))),
               why='Target impl forwards position[0] to Discrete::logp', sp=b['sp'])

    # ---- sample
    A = '<Categorical as Discrete>::sample'
    b = ctx.anchor(A, name='sample', trait='distributions::Discrete', self_head=CAT)
    if b is None:
        for o in OBS[3:]:
            ctx.unknown(o, A, o.split('.')[-1], why='anchor not found')
        return
    ev = ctx.evaluate(b)
    sp = b['sp']
    draws = ev.events(lambda e: e.op == 'draw')
    r = None
    # the distribution's element type as the impl block that OWNS the draw names it (generic parameters are named per impl block)
    def self_arg0(path):
        ob = [x for x in ctx.facts.bodies if strip_generics(x['path']) == path and x.get('self_ty')]
        m_ = re.match(r'.*<\s*([A-Za-z0-9_:]+)\s*>\s*$', ob[0]['self_ty']) if ob else None
        return m_.group(1) if m_ else None
    elty = (self_arg0(draws[0].owner) if draws and draws[0].owner else None) or self_arg0(strip_generics(b['path']))
    drawn_ty = (getattr(draws[0], 'gargs', None) or [None, None])[1] if draws else None
    if len(draws) == 1 and draws[0].draw_kind == 'rng_random' and root_place(draws[0].args[0]) == 'self.rng' and not draws[0].loops and elty is not None and drawn_ty == elty:
        r = draws[0].res
        ctx.ok('C16.sample.variate', A, 'variate', expected='one Rng::random::<T>() on self.rng before the scan', found=show(r), sp=draws[0].sp,
               why='the variate is a single StandardUniform draw in [0,1) from the distribution\'s own generator')
    else:
        ctx.bad('C16.sample.variate', A, 'variate', expected='one Rng::random::<T>() on self.rng before the scan',
                found='; '.join('%s::<%s> on %s loops=%s' % (d.draw_kind, (getattr(d, 'gargs', None) or [None, None])[1], root_place(d.args[0]), d.loops) for d in draws) or 'no draw',
                why='the variate is a single StandardUniform draw in [0,1) IN THE ELEMENT TYPE of the probabilities: a draw in a wider type converted afterwards can round up to exactly 1.0, '
                    'which no cumulative sum exceeds, so the fallback index is returned whatever its probability', sp=sp)
    loops = [ls for ls in ev.vf.loops if ls.kind == 'for']
    if len(loops) != 1 or r is None:
        for o in OBS[4:]:
            ctx.unknown(o, A, o.split('.')[-1], why='expected exactly one scan loop (found %d) and one variate' % len(loops), sp=sp)
        return
    ls = loops[0]
    name_terms(r=r)
    it = ls.var
    n = T.app('len', probs)
    kc = ev.local(ls, 'cum')
    cands = [k for k in ls.lh if k != kc]
    # the cumulative sum: some carried place with init 0 and next = lh + probs[it]
    cum_key = None
    for k in ls.lh:
        if ls.next.get(k) is T.add(ls.lh[k], index_term(probs, it)) and ls.init.get(k) is T.ZERO:
            cum_key = k
    # (index, p) pairs of enumerate(), or the probabilities themselves with the position counted by the iterator
    elem_ok = (isinstance(ls.elem, Tup) and ev.t(ls.elem.items[0]) is it) or (not isinstance(ls.elem, Tup) and ls.elem is not None and ev.t(ls.elem) is index_term(probs, it))
    ctx.check('C16.sample.scan_order', A, 'scan_order', cum_key is not None and ls.n is n and elem_ok,
              expected='scan over enumerate(probs) in index order with cum_0 = 0, cum_{i+1} = cum_i + probs[i]',
              found='n=%s, carried: %s' % (show(ls.n), '; '.join('%s: init %s next %s' % (keyrepr(k), show(ls.init[k]), show(ls.next[k])) for k in ls.lh)),
              why='inverse-CDF sampling accumulates the probabilities in index order', sp=ls.sp)
    if cum_key is None:
        for o in OBS[5:]:
            ctx.unknown(o, A, o.split('.')[-1], why='cumulative sum not recognised', sp=ls.sp)
        return
    cum_next = ls.next[cum_key]
    name_terms(cum=ls.lh[cum_key])
    breaks = [(e, st) for e, st in zip(ls.exits, ls.exit_states) if e[0] == 'break']
    strict = T.cmp('lt', r, cum_next)
    rets = [e for e in ls.exits if e[0] == 'return']
    if len(rets) == 1 and len(ls.exits) == 1:
        # early-return form: `if r < cum { return i }` inside the scan, the fallback index after it
        econd = rets[0][2]
        ctx.eq('C16.sample.strict', A, 'scan', econd, strict, rule='closed-comparison' if econd is T.cmp('le', r, cum_next) else None,
               why='with r in [0,1) the selection comparison must be strict: r <= cum selects index 0 at r = 0 even when probs[0] = 0', sp=ls.sp)
        ret = ev.ret_term
        okform = ret[0] == 'ite' and ret[1] is econd
        ctx.check('C16.sample.result_is_index', A, 'result_is_index', okform and ret[2] is it, expected='the scan returns the enumerate index at the first r < cum',
                  found=show(ret)[:200], sp=ls.sp, why='the returned category is the first index with r < cum')
        ctx.eq('C16.sample.fallback_in_range', A, 'fallback_in_range', ret[3] if okform else ret, T.sub(n, T.ONE),
               why='if the scan never selects (rounding), the result is the last valid index', sp=sp)
        return
    if len(breaks) != 1 or len(ls.exits) != 1:
        ctx.bad('C16.sample.strict', A, 'scan', expected='exactly one exit: break when r < cum', found='%d exits' % len(ls.exits), sp=ls.sp,
                why='selection is the first index whose cumulative probability exceeds the variate')
        ctx.unknown('C16.sample.result_is_index', A, 'result_is_index', why='exit structure not recognised', sp=ls.sp)
        ctx.unknown('C16.sample.fallback_in_range', A, 'fallback_in_range', why='exit structure not recognised', sp=ls.sp)
        return
    (ekind, _lbl, econd), est = breaks[0]
    ctx.eq('C16.sample.strict', A, 'scan', econd, strict, rule='closed-comparison' if econd is T.cmp('le', r, cum_next) else None,
           why='with r in [0,1) the selection comparison must be strict: r <= cum selects index 0 at r = 0 even when probs[0] = 0', sp=ls.sp)
    # result: ret = value of a carried place; at the break it is the scan index; initially len-1; unchanged on fallthrough
    ret = ev.ret_term
    res_key = [k for k in ls.lx if ls.lx[k] is ret]
    if len(res_key) != 1:
        ctx.bad('C16.sample.result_is_index', A, 'result_is_index', expected='returned value is the selected scan index', found=show(ret), sp=sp,
                why='the result must be the index selected by the scan')
        ctx.unknown('C16.sample.fallback_in_range', A, 'fallback_in_range', why='result variable not recognised', sp=sp)
        return
    rk = res_key[0]
    ctx.check('C16.sample.result_is_index', A, 'result_is_index', est.get(rk) is it and ls.next[rk] is ls.lh[rk],
              expected='at the break the result is the enumerate index; otherwise it is left unchanged',
              found='at break: %s ; iteration end: %s' % (show(est.get(rk)), show(ls.next[rk])), sp=ls.sp,
              why='the returned category is the first index with r < cum')
    ctx.eq('C16.sample.fallback_in_range', A, 'fallback_in_range', ls.init[rk], T.sub(n, T.ONE),
           why='if the scan never selects (rounding), the result is the last valid index', sp=sp)
