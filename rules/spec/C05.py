"""C05 — Gibbs sweep (DESIGN.md section 4/C05, Appendix A.C05)."""
from ..speclib import *

TITLE = 'Gibbs step refreshes every coordinate once, conditioning on the live state'
EXPLANATION = ('Loop summary of <GibbsMarkovChain as MarkovChain>::step: the sweep ranges over a permutation of 0..len(state), '
               'each iteration performs exactly one Conditional::sample(&mut target, i, &state) whose `given` argument is the '
               'loop-carried (live) state, stores the result at the same index i, and writes nothing else. Polymorphic body: '
               'holds for every S, D and every Conditional implementation.')
TECHNIQUE = 'loop summary (induction variable, carried places) + value-flow normal form'
A = '<GibbsMarkovChain as MarkovChain>::step'
OBS = ['C05.range', 'C05.once', 'C05.live', 'C05.store_idx', 'C05.no_other_write', 'C05.ret']


def frame_rules(ctx):
    from .. import frame
    STEP, NEW, SEED = '<gibbs::GibbsMarkovChain<S, D> as core::MarkovChain<S>>::step', 'gibbs::GibbsMarkovChain::new', 'gibbs::GibbsSampler::set_seed'
    frame.check_frame(ctx, 'C05', 'gibbs::GibbsMarkovChain', {'target': {STEP, NEW}, 'current_state': {STEP, NEW}, 'seed': {NEW, SEED}, 'rng': {NEW, SEED}},
                      why="the chain's state and conditional change only through the anchored sweep (and the constructor / seeding API): any other writer is a second, unspecified transition")
    SNEW, ACC = 'gibbs::GibbsSampler::new', '<gibbs::GibbsSampler<S, D> as core::HasChains<S>>::chains_mut'
    frame.check_frame(ctx, 'C05', 'gibbs::GibbsSampler', {'target': {SNEW}, 'chains': {SNEW, ACC, SEED}, 'seed': {SNEW, SEED}},
                      why='the runner hands out its chains (accessor) and re-seeds them; nothing else replaces or edits them')
    frame.shadowing(ctx, 'C05', ['gibbs::GibbsMarkovChain', 'gibbs::GibbsSampler'])


def run(ctx):
    frame_rules(ctx)
    b = ctx.anchor(A, name='step', trait='core::MarkovChain', self_head='gibbs::GibbsMarkovChain')
    if b is None:
        for o in OBS:
            ctx.unknown(o, A, o.split('.')[1], why='anchor not found: impl MarkovChain for gibbs::GibbsMarkovChain, fn step')
        return
    ev = ctx.evaluate(b)
    sp = b['sp']
    x0 = selff('current_state')
    calls = ev.events(lambda e: e.key == 'distributions::Conditional::sample')
    loops = [ls for ls in ev.vf.loops if any(e in ls.events for e in calls)]
    outside = [e for e in calls if not e.loops]
    if len(loops) != 1 or outside:
        for o in OBS[:4]:
            ctx.bad(o, A, o.split('.')[1], expected='one counted loop containing the Conditional::sample call',
                    found='%d loops with sample calls, %d calls outside loops' % (len(loops), len(outside)),
                    why='a sweep is one pass over the coordinates', sp=sp)
        return
    ls = loops[0]
    k = ls.var
    i = ev.t(ls.elem) if ls.elem is not None else None
    n = T.app('len', x0)
    perm = i is not None and (i is k or i is T.sub(T.sub(n, T.ONE), k))
    ctx.check('C05.range', A, 'range', ls.n is n and perm and not ls.exits and not ls.ctx,
              expected='every index of 0..len(state) exactly once (any order), no early exit',
              found='n=%s elem=%s exits=%d nested_in=%s' % (show(ls.n), show(i), len(ls.exits), ls.ctx),
              why='each coordinate is refreshed exactly once per step', sp=ls.sp)
    inloop = [e for e in calls if e in ls.events]
    ctx.check('C05.once', A, 'once', len(inloop) == 1, expected='one Conditional::sample per iteration', found=str(len(inloop)),
              why='a second draw per coordinate changes the kernel', sp=ls.sp)
    kcs = ev.local(ls, 'self.current_state')
    ktg = ev.local(ls, 'self.target')
    if kcs is None or ktg is None or not inloop:
        ctx.unknown('C05.live', A, 'live', why='state/target are not loop-carried places in the sweep', sp=ls.sp)
        ctx.unknown('C05.store_idx', A, 'store_idx', why='state is not a loop-carried place', sp=ls.sp)
    else:
        lh_cs, lh_tg = ls.lh[kcs], ls.lh[ktg]
        name_terms(state_live=lh_cs, target_live=lh_tg, i=i if i is not k else None)
        call = inloop[0]
        exp_call = T.app('distributions::Conditional::sample', lh_tg, i, lh_cs)
        ctx.eq('C05.live', A, 'live', call.res, exp_call,
               why='`given` must be the live state (coordinates refreshed earlier in this sweep hold their new values), index = loop index', sp=call.sp)
        ctx.eq('C05.store_idx', A, 'store_idx', ev.t(ls.next[kcs]), T.app('upd', lh_cs, i, call.res),
               why='the answer is written to coordinate i only', sp=ls.sp)
        try:
            fin = ev.final_term('self.current_state')
        except Exception:
            fin = None
        ctx.check('C05.final', A, 'final', fin is ls.lx.get(kcs), expected='the state after the step is the state the sweep leaves, on every path', found=show(fin)[:200] if fin is not None else '?', sp=sp,
                  why='a path around the sweep (guard clause) or an edit of the state after it is a different transition for the inputs that take it')
    extra = [keyrepr(x) for x in ls.lh if keyrepr(x) not in ('self.current_state', 'self.target')]
    others = [w for w in ev.written_ext() if w not in ('self.current_state', 'self.target')]
    ctx.check('C05.no_other_write', A, 'no_other_write', not extra and not others, expected='only current_state[i] and the conditional (through &mut) change',
              found=', '.join(extra + others) or 'none', why='the step changes nothing else', sp=sp)
    r = ev.ret
    ctx.check('C05.ret', A, 'return', isinstance(r, Ref) and r.place == Place(('ext', 'self'), ('current_state',)),
              expected='&self.current_state', found=repr(r)[:100], why='callers record the returned state', sp=sp)
