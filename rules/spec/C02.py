"""C02 — HMC update (DESIGN.md section 4/C02, Appendix A.C02)."""
from ..speclib import *
from .. import effects as E

TITLE = 'HMC step = L velocity-Verlet (leapfrog) steps from (x, p) + row-wise Metropolis test ln u <= H(x,p) - H(x\',p\')'
EXPLANATION = ('Value-flow normal forms and the loop summary of HMC::step with HMC::leapfrog inlined (polymorphic body: every T, B, GTarget, step size, L, batch): '
               'fresh gradient G(x) = (eps/2) grad sum logp at the current positions on every path to the integrator; loop runs exactly n_leapfrog times; Verlet body '
               'p1 = p + g, x1 = x + eps p1, g1 = G(x1) (gradient at the updated position), p2 = p1 + g1, carried g := g1; returns (x_L, p_L, logp(x_L)); '
               'H = -logp + 1/2 sum_dim1 p^2 at both ends; accept mask = [H(x,p0) - H(x_L,p_L) - ln U >= 0] (non-strict), U uniform of shape [n_chains]; '
               'positions := mask_where(x, expand(unsqueeze_dim(mask,1)), x_L) as the only store; no tensor op on the slice mixes rows. '
               'Numeric reversibility "up to rounding" and row-wise behaviour of user densities are not decided.')
TECHNIQUE = 'value-flow normal form + loop summary (Verlet transfer function) vs specification table; op allow-list (row independence)'
ULP = 'distributions::BatchedGradientTarget::unnorm_logp_batch'
HALF = T.div(T.ONE, N(2))
DENY = ('sum', 'mean', 'matmul', 'transpose', 'flip', 'permute', 'stack_t', 'cat_t', 'swap_dims', 'mean_dim', 'sorted', 'roll', 'dot', 'flatten_t', 'reshape', 'slice', 'slice_assign')


def frame_rules(ctx):
    from .. import frame
    STEP, NEW, SEED = 'hmc::HMC::step', 'hmc::HMC::new', 'hmc::HMC::set_seed'
    frame.check_frame(ctx, 'C02', 'hmc::HMC', {'target': {NEW}, 'step_size': {NEW}, 'n_leapfrog': {NEW}, 'positions': {NEW, STEP}, 'last_grad_summands': {NEW, STEP}, 'rng': {NEW, STEP, SEED}},
                      why='positions, cached gradient and generator change only through the anchored step (and the constructor / seeding API); step size, trajectory length and target are fixed at construction')
    frame.shadowing(ctx, 'C02', ['hmc::HMC'])


def run(ctx):
    frame_rules(ctx)
    A = 'HMC::step'
    b = ctx.anchor(A, name='step', self_head='hmc::HMC', container='inherent')
    names = ['grad0', 'args', 'loop', 'params', 'v.mom', 'v.pos', 'v.g', 'ret', 'ham_accept', 'select', 'rowwise', 'uniform']
    if b is None:
        for o in names:
            ctx.unknown('C02.' + o, A, o, why='anchor not found: hmc::HMC::step')
        return
    ev = ctx.evaluate(b, opts=GRAPH_OPTS)     # autodiff leaves / graph cuts visible: wiring is an obligation, values are compared after erasure
    sp = b['sp']
    tgt, x0, eps = selff('target'), selff('positions'), selff('step_size')

    def ulp(z):
        return T.app(ULP, tgt, z)

    def G(z):
        return T.mul(T.mul(eps, HALF), T.app('grad', ulp(z), z))

    # ---- leapfrog loop
    loops = [ls for ls in ev.vf.loops if ls.kind == 'for' and any(e.key == ULP for e in ls.events)]
    if len(loops) != 1:
        for o in names:
            ctx.unknown('C02.' + o, A, o, why='expected exactly one integrator loop evaluating the density (found %d)' % len(loops), sp=sp)
        return
    ls = loops[0]
    ctx.check('C02.loop', A, 'loop', ls.n is selff('n_leapfrog') and not ls.exits and not ls.ctx, expected='for _ in 0..self.n_leapfrog, no other exit', found='n=%s exits=%d' % (show(ls.n), len(ls.exits)), sp=ls.sp,
              why='exactly L leapfrog steps')
    keys = {keyrepr(k): k for k in ls.lh}
    gk = keys.get('self.last_grad_summands')
    others = [k for k in ls.lh if k != gk]
    # identify pos / mom among the two remaining carried places by their initial values
    raw_terms = [ev.t(ls.next[k]) for k in ls.lh] + [ev.t(ls.init[k]) for k in ls.lh] + [ev.final_term('self.positions')]
    wiring = grad_wiring_problems(raw_terms)
    ngrads = len(T.atoms(T.tup(*raw_terms), lambda x: T.is_app(x, 'grad')))
    ctx.check('C02.autodiff', A, 'autodiff', not wiring and ngrads >= 2, expected='every gradient is read from the require_grad leaf the density was evaluated on, with no graph cut in between (start gradient and per-iteration gradient)',
              found='; '.join(wiring) or '%d gradient extractions, all wired leaf -> density -> backward -> grad(leaf)' % ngrads, sp=sp,
              why='a gradient taken w.r.t. another tensor, or through a detached factor, is not the gradient of log p at the position: the integrator would not be leapfrog')
    for k_ in list(ls.lh):
        ls.next[k_] = erase_graph(ev.t(ls.next[k_]))
        ls.init[k_] = erase_graph(ev.t(ls.init[k_])) if ls.init[k_] is not None else None
    posk = [k for k in others if ls.init[k] is x0]
    momk = [k for k in others if k not in posk]
    if gk is None or len(posk) != 1 or len(momk) != 1 or len(others) != 2:
        for o in ('grad0', 'args', 'v.mom', 'v.pos', 'v.g', 'ret', 'ham_accept', 'select'):
            ctx.unknown('C02.' + o, A, o, why='carried places of the integrator loop not recognised: %s' % sorted(keys), sp=ls.sp)
        return
    posk, momk = posk[0], momk[0]
    ctx.ok('C02.args', A, 'args', expected='integrator starts at the current positions', found='pos0 = %s' % show(ls.init[posk]), sp=ls.sp, why='leapfrog(positions@0, p0)')
    p0 = ls.init[momk]
    name_terms(p0=p0, x=x0)
    ctx.eq('C02.grad0', A, 'grad0', ls.init[gk], G(x0), sp=sp,
           why='the first half-step must use the gradient at the CURRENT positions, recomputed in this step (also after a rejection), with factor eps/2')
    ph, xh, gh = ls.lh[momk], ls.lh[posk], ls.lh[gk]
    name_terms(p_k=ph, x_k=xh, g_k=gh)
    p1 = T.add(ph, gh)
    x1 = T.add(xh, T.mul(eps, p1))
    g1 = G(x1)
    ctx.eq('C02.v.pos', A, 'verlet.pos', ls.next[posk], x1, sp=ls.sp, why='x1 = x + eps * (p + g): full position step with the half-updated momentum')
    ctx.eq('C02.v.g', A, 'verlet.grad', ls.next[gk], g1, sp=ls.sp, why='g1 = (eps/2) grad logp at the UPDATED positions; carried into the next iteration')
    ctx.eq('C02.v.mom', A, 'verlet.mom', ls.next[momk], T.add(p1, g1), sp=ls.sp, why='p2 = (p + g) + g1: two half-steps around the position update')
    wr = [w for w in ev.written_ext() if w not in ('self.positions', 'self.last_grad_summands', 'self.rng')]
    ctx.check('C02.params', A, 'params', not wr, expected='step_size, n_leapfrog, target untouched', found=', '.join(wr) or 'none', sp=sp, why='integrator parameters are constant during a step')
    # ---- accept / select
    xL, pL = ls.lx[posk], ls.lx[momk]
    name_terms(x_L=xL, p_L=pL)

    def ke(p):
        return T.mul(HALF, T.app('squeeze', T.app('sum_dim', T.powi(p, 2), N(1)), N(1)))
    final = erase_graph(ev.final_term('self.positions'))
    if not T.is_app(final, 'mask_where') or len(final[2]) != 3:
        for o in ('ret', 'ham_accept', 'select', 'uniform'):
            ctx.bad('C02.' + o, A, o, expected='positions := mask_where(x, mask, x_L)', found=show(final), sp=sp, why='row-wise selection between the old and the proposed positions')
    else:
        old, mask, new = final[2]
        ctx.check('C02.ret', A, 'ret', new is xL, expected='proposed positions = integrator output x_L', found=show(new), sp=sp, why='(x_L, p_L, logp(x_L)) bound in this order')
        n_ch, dim = index_term(fld(T.app('shape_t', x0), 'dims'), N(0)), index_term(fld(T.app('shape_t', x0), 'dims'), N(1))
        inner = mask
        shape_ok = False
        if T.is_app(mask, 'expand') and T.is_app(mask[2][0], 'unsqueeze_dim') and mask[2][0][2][1] is N(1) and mask[2][1] is T.app('array', n_ch, dim):
            inner = mask[2][0][2][0]
            shape_ok = True
        ctx.check('C02.select', A, 'select', old is x0 and shape_ok, expected='mask_where(positions@0, expand(unsqueeze_dim(mask, 1), [n_chains, dim]), x_L): only store',
                  found='old=%s mask-shape-ok=%s' % (show(old), shape_ok), sp=sp, why='row r of the result is row r of x or of x_L according to chain r\'s own test')
        us = [a for a in T.atoms(inner, lambda x: T.is_app(x, 'ln'))]
        if len(us) != 1:
            ctx.bad('C02.ham_accept', A, 'accept', expected='one ln(U)', found=show(inner), sp=sp, why='Metropolis test on the Hamiltonian')
            ctx.unknown('C02.uniform', A, 'uniform', why='acceptance variate not identified', sp=sp)
        else:
            lnU = us[0]
            U = lnU[2][0]
            dH = T.sub(T.add(T.neg(ulp(x0)), ke(p0)), T.add(T.neg(ulp(xL)), ke(pL)))
            ctx.eq('C02.ham_accept', A, 'accept', inner, T.cmp('ge', dH, lnU), sp=sp,
                   why='accept iff ln u <= H(x,p0) - H(x_L,p_L), H = -logp + |p|^2/2 (sum over dim 1), non-strict; true side takes the proposal')
            # U: [n_chains] uniforms from self.rng
            oku = False
            if T.is_app(U, 'tensordata') and U[2][1] is T.app('array', n_ch):
                dv = E.draw_vector(ev, 'StandardUniform', within=U)       # element-wise in a counted loop, or as one block of the stream
                oku = dv is not None and dv['n'] is n_ch and strip_eff(dv['seq']) is strip_eff(U[2][0]) and dv['site'].gen_root == 'self.rng' 
            ctx.check('C02.uniform', A, 'uniform', oku, expected='U = [n_chains] StandardUniform draws', found=show(U), sp=sp, why='one acceptance variate per chain')
    # ---- row independence
    bad = []
    for x in T.subterms(erase_graph(ev.final_term('self.positions'))):
        if x[0] == 'app':
            if x[1] in DENY:
                bad.append(x[1])
            if x[1] == 'sum_dim' and x[2][1] is not N(1):
                bad.append('sum_dim(%s)' % show(x[2][1]))
            if x[1] in ('unsqueeze_dim',) and x[2][1] is not N(1):
                bad.append('unsqueeze_dim(%s)' % show(x[2][1]))
    for k in (posk, momk, gk):
        for x in T.subterms(ls.next[k]):
            if x[0] == 'app' and (x[1] in DENY or (x[1] == 'sum_dim' and x[2][1] is not N(1))):
                bad.append(x[1])
    ns = narrowing_sites(ctx, [b, ctx.helper('hmc.leapfrog')])
    ctx.check('C02.no_narrowing', A, 'precision', not ns, expected='no conversion to a fixed narrower float type (elem::<f32>, to_f32, `as f32`) on the integrator / acceptance path',
              found='; '.join('%s at %s' % (d, s_) for _, d, s_ in ns) or 'none', sp=sp,
              why='on an f64 back end an f32-rounded step size or state makes the update differ from L leapfrog steps of the requested step size (and breaks reversibility to rounding accuracy)')
    ctx.check('C02.rowwise', A, 'rowwise', not bad, expected='only element-wise / dim-1 tensor operations between (x, p0) and the new positions', found=', '.join(sorted(set(bad))) or 'none', sp=sp,
              why='rows of the batch never influence one another')
