"""C17 — CSV / Arrow / Parquet export (DESIGN.md section 4/C17, Appendix A.C17)."""
from ..speclib import *

TITLE = 'Export: header/schema and row/column values agree position by position, flat offsets are right, values widen losslessly, every error is propagated, flush/finish/close precedes Ok'
EXPLANATION = ('Built with all three I/O features. Per save function (value-flow terms, loop summaries, result-discipline facts): the label sequence ["chain","observation",dim_0..] '
               '(tensor Parquet variant: ["observation","chain",..] as documented) and the value sequence written per row / appended per column agree position by position '
               '(the value under "chain" is the index of the loop over the documented chain axis, etc.); tensor variants use the flat offset i0*(s1*s2) + i1*s2 and a slice of '
               'length s2; values go through Into::<f64>::into under the bound T: Into<f64> (lossless by type) or Display (CSV); every fallible call is propagated with `?` '
               '(none unwrapped, expected or dropped); flush / finish / close on the writer is the last writer operation before Ok(()). Byte-level round trips through the '
               'external readers are not decided.')
TECHNIQUE = 'value-flow sequence terms (labels vs values), affine offset forms, result-discipline and ordering rules over the evaluated bodies'
TRUNCATING_OPENS = ('std::fs::File::create', 'csv::Writer::from_path')      # csv::Writer::from_path is documented as File::create + from_writer (truncates)
FALLIBLE = ('std::fs::File::create', 'csv::Writer::from_path', 'csv::Writer::write_record', 'csv::Writer::flush', 'arrow::array::RecordBatch::try_new', 'arrow::arrow_ipc::writer::FileWriter::try_new',
            'arrow::arrow_ipc::writer::FileWriter::write', 'arrow::arrow_ipc::writer::FileWriter::finish', 'parquet::arrow::ArrowWriter::try_new', 'parquet::arrow::ArrowWriter::write',
            'parquet::arrow::ArrowWriter::close')
FIELD = 'arrow::datatypes::Field::new'
APPEND = 'arrow::array::PrimitiveBuilder::append_value'
FINISH = 'arrow::array::PrimitiveBuilder::finish'
U32, F64 = T.app('adt:arrow::datatypes::DataType::UInt32'), T.app('adt:arrow::datatypes::DataType::Float64')


def S_(s):
    return S('"' + s + '"')


def errdisc(ctx, pfx, A, ev, sp, closer):
    calls = [e for e in ev.vf.events if e.key in FALLIBLE]
    disc = ev.vf.discipline
    bad = []
    for e in calls:
        direct = [d[0] for d in disc if d[1] is e.res]
        if 'try' not in direct:
            # `?` written out: a match / if-let on the result whose error arm makes the function return an Err
            ret_e = None
            if isinstance(ev.ret_term, T.Tm) and 'match' in direct:
                # the path on which every earlier fallible call succeeded and this one failed
                m_ = {x: T.FALSE for x in T.subterms(ev.ret_term) if T.is_app(x, 'is:Err')}
                m_[T.app('is:Err', e.res)] = T.TRUE
                ret_e = T.subst(ev.ret_term, m_)
            if not (ret_e is not None and T.is_app(ret_e, 'Err') and any(x is e.res for x in T.subterms(ret_e))):
                bad.append('%s: result not propagated' % e.key.split('::')[-1])
        if any(h in ('unwrap',) for h in direct):
            bad.append('%s: unwrapped' % e.key.split('::')[-1])
    unw = [d for d in disc if d[0] == 'unwrap' and (d[3] or '').startswith('io::')]
    ctx.check(pfx + '.errdisc', A, 'errors', not bad and not unw and len(calls) >= 3, expected='every fallible call propagated with `?` (or map_err + ?); nothing unwrapped/expected/dropped',
              found='%d fallible calls; %s' % (len(calls), '; '.join(bad + ['unwrap at %s' % d[2] for d in unw]) or 'all propagated'), sp=sp,
              why='a path that cannot be written must yield an error, not a panic or a partial success')
    opens = [e for e in ev.vf.events if (e.key or '').startswith('std::fs::') or e.key in TRUNCATING_OPENS]
    ctx.check(pfx + '.open_truncates', A, 'open', len(opens) == 1 and opens[0].key in TRUNCATING_OPENS and not opens[0].pc and not opens[0].loops,
              expected='the output is opened exactly once with File::create (creates or TRUNCATES) or a documented wrapper of it', found=', '.join(e.key for e in opens) or 'no file opened', sp=sp,
              why='an existing longer file opened without truncation keeps its tail (e.g. the old Parquet footer): a reader then sees the previous export although Ok was returned')
    b_ = ev.body
    ns = narrowing_sites(ctx, [b_])
    ctx.check(pfx + '.no_narrowing', A, 'precision', not ns, expected='stored values reach the file without a narrowing conversion (Into<f64> / Display of the stored element; a dtype mismatch is an error, not a silent cast)',
              found='; '.join('%s at %s' % (d, s_) for _, d, s_ in ns) or 'none', sp=sp,
              why='the file must hold exactly the stored values')
    writer_ops = [e for e in ev.vf.events if e.key in FALLIBLE and e.key != 'std::fs::File::create' and 'try_new' not in e.key]
    last = writer_ops[-1] if writer_ops else None
    ctx.check(pfx + '.flush_dominates_ok', A, 'flush', last is not None and last.key == closer and not last.pc and not last.loops and sum(1 for e in writer_ops if e.key == closer) == 1,
              expected='%s is the last writer operation, unconditional, outside every loop' % closer.split('::')[-1], found=(last.key if last else 'no writer operation'), sp=sp,
              why='success may only be reported after the data has been flushed / the footer written')


def labels_fields(nd, first, second, k=None):
    k = k or S('k#l')
    return T.app('concat', T.app('array', T.app(FIELD, S_(first), U32, T.FALSE), T.app(FIELD, S_(second), U32, T.FALSE)),
                 mk_comp(nd, k, T.app(FIELD, T.app('format', S_('dim_'), k), F64, T.FALSE)))


def widening(ctx, pfx, A, b):
    preds = b.get('preds', [])
    ok = any(re.match(r'T: std::convert::Into<f64>', p) for p in preds)
    ctx.check(pfx + '.widen', A, 'widen', ok, expected='bound T: Into<f64> on the element type (lossless widening by type); values passed through Into::into', found='; '.join(p for p in preds if p.startswith('T:')), sp=b['sp'],
              why='Into<f64> exists only for types that convert to f64 without loss')


def dim_count_ok(n_term, nd, loops3, ranks):
    """the dim loop runs over all n_dims columns: its trip count is n_dims, or min(n_dims, len(builders)) when it walks the builder
    vector and the cell in lockstep (zip) -- the builder vector has n_dims entries from its construction and element updates keep
    its length"""
    n_c = canon_nd(n_term, ranks)
    nd = canon_nd(nd, ranks)
    if n_c is nd:
        return True
    lout, lmid, linner = loops3
    for k in linner.lh:
        outk = [x for x in lout.lh if keyrepr(x) == keyrepr(k)]
        if not outk or seq_len(lout.init[outk[0]]) is not nd:
            continue
        heads = [l_.lh[x] for l_ in (lout, lmid, linner) for x in l_.lh if keyrepr(x) == keyrepr(k)]
        if T.is_app(n_c, 'min') and any(set(n_c[2]) == {nd, T.app('len', h_)} for h_ in heads):
            return True
    return False


def builders(ctx, pfx, A, ev, loops3, ci, oi, chain_first, value_of, nd, sp, n_term=None, ndims=None):
    """column builders: chain/observation appended once per row with the loop index of their axis, dim builders per element"""
    lmid, linner = loops3[1], loops3[2]
    j = linner.var
    byname = {keyrepr(k): k for k in lmid.lh}
    apps_mid = {}
    for k in lmid.lh:
        nx = lmid.next[k]
        if isinstance(nx, T.Tm) and T.is_app(nx, 'post0') and T.is_app(nx[2][0], APPEND) and nx[2][0][2][0] is lmid.lh[k]:
            apps_mid[k] = nx[2][0][2][1]
    chain_keys = [k for k, v in apps_mid.items() if v is ci]
    obs_keys = [k for k, v in apps_mid.items() if v is oi]
    ok_rows = len(apps_mid) == 2 and len(chain_keys) == 1 and len(obs_keys) == 1
    ctx.check(pfx + '.values.index_columns', A, 'index-columns', ok_rows, expected='one builder appended with the chain-axis index and one with the observation-axis index, once per row',
              found='; '.join('%s <- %s' % (keyrepr(k), show(v)) for k, v in apps_mid.items()), sp=lmid.sp, why='each row carries its (chain, observation) coordinates')
    dk = [k for k in linner.lh]
    okd = False
    if len(dk) == 1:
        lh = linner.lh[dk[0]]
        exp = T.app('upd', lh, j, T.app('post0', T.app(APPEND, index_term(lh, j), value_of(j))))
        okd = canon_nd(linner.next[dk[0]], ctx.extra.get('_ranks', {})) is exp and dim_count_ok(n_term if n_term is not None else linner.n, nd, loops3, ctx.extra.get('_ranks', {}))
    if len(dk) == 1:
        lout_ = loops3[0]
        ok0 = [x for x in lout_.lh if keyrepr(x) == keyrepr(dk[0])]
        cnt = seq_len(strip_eff(lout_.init[ok0[0]])) if ok0 and isinstance(lout_.init.get(ok0[0]), T.Tm) else None
        ctx.check(pfx + '.values.builder_count', A, 'dim-builders', cnt is not None and canon_nd(cnt, ctx.extra.get('_ranks', {})) is canon_nd(ndims if ndims is not None else nd, ctx.extra.get('_ranks', {})),
                  expected='exactly n_dims value builders (one per dim_j column of the schema)', found=show(cnt) if cnt is not None else 'builder vector not identified', sp=sp,
                  why='a builder more or less than the schema has columns makes every export fail (or drop a column): nothing round-trips')
    ctx.check(pfx + '.values.dims', A, 'dim-columns', okd, expected='dim builder j receives element j of the (chain, observation) cell, for every j < n_dims', found=show(linner.next[dk[0]])[:300] if dk else 'no builder vector', sp=linner.sp,
              why='column dim_j holds exactly the stored values')
    if not (ok_rows and len(dk) == 1):
        return
    ck, ok_ = chain_keys[0], obs_keys[0]
    # assembled arrays: position-wise agreement with the schema
    tn = ev.events(lambda e: e.key == 'arrow::array::RecordBatch::try_new')
    if len(tn) != 1:
        ctx.bad(pfx + '.labels_values', A, 'order', expected='one RecordBatch::try_new(schema, arrays)', found=str(len(tn)), sp=sp, why='columns and schema must agree')
        return
    arrays = tn[0].args[1]
    lout = loops3[0]
    def fin(k):
        # final value of the builder variable named like key k after the row loops (possibly guarded by an emptiness test)
        return lout.lx.get([x for x in lout.lx if keyrepr(x) == keyrepr(k)][0])
    k2 = S('k#f')
    dbs = fin(dk[0])
    alts = []
    for wrap in (lambda x, init: x, lambda x, init: T.ite(T.cmp('gt', index_term(T.app('shape', S('data')), N(0)), T.ZERO), x, init)):
        cb, ob, db = wrap(fin(ck), lout.init[[x for x in lout.lx if keyrepr(x) == keyrepr(ck)][0]]), wrap(fin(ok_), lout.init[[x for x in lout.lx if keyrepr(x) == keyrepr(ok_)][0]]), \
            wrap(dbs, lout.init[[x for x in lout.lx if keyrepr(x) == keyrepr(dk[0])][0]])
        first, second = (cb, ob) if chain_first else (ob, cb)
        alts.append(T.app('concat', T.app('array', T.app(FINISH, first), T.app(FINISH, second)), mk_comp(T.app('len', db), k2, T.app(FINISH, index_term(db, k2)))))
    ctx.eq(pfx + '.labels_values', A, 'order', strip_eff(arrays), alts[0], alts=alts[1:], sp=tn[0].sp,
           why='columns are assembled in the order of the schema: [%s, %s, dim_0, …]' % (('chain', 'observation') if chain_first else ('observation', 'chain')))


def run(ctx):
    array_csv(ctx)
    tensor_csv(ctx)
    array_arrow_like(ctx, 'io::arrow::save_arrow', 'C17.arrow', 'arrow::arrow_ipc::writer::FileWriter::finish')
    array_arrow_like(ctx, 'io::parquet::save_parquet', 'C17.parquet', 'parquet::arrow::ArrowWriter::close')
    tensor_parquet(ctx)


def row_loops(ev, owner):
    ls = [l for l in ev.vf.loops if l.kind == 'for']       # the exporter's own loops and those of private helpers inlined into it
    top = [l for l in ls if not l.ctx]
    out = []
    for t in top:
        mid = [l for l in ls if l.ctx == (t.uid,)]
        for m in mid:
            inner = [l for l in ev.vf.loops if l.ctx == (t.uid, m.uid)]
            out.append((t, m, inner))
    return out


def array_csv(ctx):
    A = 'io::csv::save_csv'
    b = ctx.anchor(A, path=A)
    if b is None:
        ctx.unknown('C17.csv', A, 'anchor', why='anchor not found (built without the csv feature?)')
        return
    ev = ctx.evaluate(b)
    sp = b['sp']
    data = S('data')
    ctx.extra['_ranks'] = {data: 3}
    nd = index_term(T.app('shape', data), N(2))
    wr = ev.events(lambda e: e.key == 'csv::Writer::write_record')
    k = S('k#l')
    header = T.app('concat', T.app('array', T.app('to_string', S_('chain')), T.app('to_string', S_('observation'))), mk_comp(nd, k, T.app('format', S_('dim_'), k)))
    if len(wr) != 2:
        ctx.bad('C17.csv.labels', A, 'labels', expected='header record then one record per row', found='%d write_record sites' % len(wr), sp=sp, why='documented layout')
    else:
        ctx.check('C17.csv.labels', A, 'labels', wr[0].args[1] is header and not wr[0].loops, expected=show(header), found=show(wr[0].args[1])[:300], sp=wr[0].sp, why='documented header: chain, observation, dim_0..')
        rl = row_loops(ev, A)
        okv = False
        found = show(wr[1].args[1])[:300]
        if len(rl) == 1:
            t, m, inner = rl[0]
            ci, oi = t.var, m.var
            okloops = t.n is index_term(T.app('shape', data), N(0)) and m.n is index_term(T.app('shape', T.app('index_axis', data, AX(0), ci)), N(0)) and isinstance(t.elem, Tup) and isinstance(m.elem, Tup) \
                and ev.t(t.elem.items[0]) is ci and ev.t(m.elem.items[0]) is oi
            j = S('k#j')
            row = T.app('concat', T.app('array', T.app('to_string', ci), T.app('to_string', oi)), mk_comp(nd, j, T.app('to_string', sel(data, ci, oi, j))))
            okv = okloops and canon_nd(wr[1].args[1], {data: 3}) is row and wr[1].loops == (t.uid, m.uid)
        ctx.check('C17.csv.values', A, 'values', okv, expected='row = [chain index (axis 0), observation index (axis 1), data[c, o, 0..]] for every (c, o)', found=found, sp=wr[1].sp,
                  why='value sequence agrees with the header position by position')
    errdisc(ctx, 'C17.csv', A, ev, sp, 'csv::Writer::flush')


def flat_row(X, term, var):
    """the flat buffer X read at `off + var` inside term (a row `X[off..off + n]` walked by var, however the row is sliced off:
    range indexing, split_at, a cursor): returns off, or None when X is not read that way exactly once"""
    offs = set()
    for x in T.atoms(term, lambda x: T.is_app(x, 'index') and x[2][0] is X and not T.is_app(x[2][1], 'range')):
        if not any(y is var for y in T.subterms(x[2][1])):
            continue
        off = T.sub(x[2][1], var)
        if any(y is var for y in T.subterms(off)):
            return None
        offs.add(off)
    return list(offs)[0] if len(offs) == 1 else None


def offsets(ctx, pfx, A, X, i0, i1, s1, s2, found_n, found_off, sp):
    off = T.add(T.mul(T.mul(i0, s1), s2), T.mul(i1, s2))
    ctx.eq(pfx + '.offset', A, 'offset', T.tup(found_off, found_n), T.tup(off, s2), sp=sp, why='row-major flat offset of cell (i0, i1) in an [s0, s1, s2] tensor is i0*s1*s2 + i1*s2; the row is the next s2 values')


def tensor_csv(ctx):
    A = 'io::csv::save_csv_tensor'
    b = ctx.anchor(A, path=A)
    if b is None:
        ctx.unknown('C17.csv_tensor', A, 'anchor', why='anchor not found')
        return
    ev = ctx.evaluate(b)
    sp = b['sp']
    X = S('tensor')
    dims = T.app('dims', X)
    s0, s1, s2 = [index_term(dims, N(i)) for i in range(3)]
    wr = ev.events(lambda e: e.key == 'csv::Writer::write_record')
    k = S('k#l')
    header = T.app('concat', T.app('array', T.app('to_string', S_('chain')), T.app('to_string', S_('observation'))), mk_comp(s2, k, T.app('format', S_('dim_'), k)))
    rl = row_loops(ev, A)
    if len(wr) != 2 or len(rl) != 1:
        ctx.bad('C17.csv_tensor.labels', A, 'labels', expected='header then rows in a (chain, observation) double loop', found='%d write sites, %d double loops' % (len(wr), len(rl)), sp=sp, why='documented layout')
    else:
        ctx.check('C17.csv_tensor.labels', A, 'labels', wr[0].args[1] is header and not wr[0].loops, expected=show(header), found=show(wr[0].args[1])[:300], sp=wr[0].sp, why='documented header')
        t, m, inner = rl[0]
        ci, oi = t.var, m.var
        okl = t.n is s0 and m.n is s1 and ev.t(t.elem) is ci and ev.t(m.elem) is oi
        rec = wr[1].args[1]
        okrow = False
        off = None
        if T.is_app(rec, 'concat') and rec[2][0] is T.app('array', T.app('to_string', ci), T.app('to_string', oi)) and T.is_app(strip_eff(rec[2][1]), 'comp'):
            vals = strip_eff(rec[2][1])
            j = S('k#j')
            off = flat_row(X, index_term(vals, j), j)
            if off is not None:
                okrow = vals is mk_comp(vals[2][0], j, T.app('to_string', index_term(X, T.add(off, j))))
        ctx.check('C17.csv_tensor.values', A, 'values', okl and okrow, expected='for chain in 0..s0, obs in 0..s1: [chain, obs, every value of the row of the flat buffer, in order]', found=show(rec)[:300], sp=wr[1].sp,
                  why='value sequence agrees with the header position by position; loops cover the documented [chain, observation, dim] axes')
        if off is not None:
            nvals = settle_monus(T.subst(vals[2][0], {T.app('len', X): T.mul(T.mul(s0, s1), s2)}), {t.var: s0, m.var: s1})
            offsets(ctx, 'C17.csv_tensor', A, X, ci, oi, s1, s2, nvals, off, wr[1].sp)
        else:
            ctx.unknown('C17.csv_tensor.offset', A, 'offset', why='row slice not identified', sp=sp)
    errdisc(ctx, 'C17.csv_tensor', A, ev, sp, 'csv::Writer::flush')


def array_arrow_like(ctx, path, pfx, closer):
    A = path
    b = ctx.anchor(A, path=path)
    if b is None:
        ctx.unknown(pfx, A, 'anchor', why='anchor not found')
        return
    ev = ctx.evaluate(b)
    sp = b['sp']
    data = S('data')
    ctx.extra['_ranks'] = {data: 3}
    nd = index_term(T.app('shape', data), N(2))
    sch = ev.events(lambda e: e.key == 'arrow::datatypes::Schema::new')
    ctx.check(pfx + '.labels', A, 'labels', len(sch) == 1 and sch[0].args[0] is labels_fields(nd, 'chain', 'observation'), expected='schema [chain: UInt32, observation: UInt32, dim_j: Float64 ..]',
              found=show(sch[0].args[0])[:300] if sch else 'no schema', sp=sp, why='documented schema')
    rl = row_loops(ev, A)
    if len(rl) != 1 or len(rl[0][2]) != 1:
        ctx.unknown(pfx + '.values', A, 'values', why='expected one (chain, observation, dim) triple loop (found %d)' % len(rl), sp=sp)
    else:
        t, m, inner = rl[0]
        ci, oi = t.var, m.var
        okloops = t.n is index_term(T.app('shape', data), N(0)) and m.n is index_term(T.app('shape', T.app('index_axis', data, AX(0), ci)), N(0)) and isinstance(t.elem, Tup) and ev.t(t.elem.items[0]) is ci \
            and isinstance(m.elem, Tup) and ev.t(m.elem.items[0]) is oi and isinstance(inner[0].elem, Tup) \
            and dim_count_ok(inner[0].n, nd, (t, m, inner[0]), {data: 3})      # (which element goes to which builder is decided by .values.dims)
        ctx.check(pfx + '.values.loops', A, 'loops', okloops, expected='chain loop over axis 0, observation loop over axis 1, dim loop over axis 2, indices from enumerate', found='n=%s / %s / %s' % (show(t.n)[:80], show(m.n)[:80], show(inner[0].n)[:80]), sp=t.sp,
                  why='one row per (chain, observation) cell, labelled with its indices')
        builders(ctx, pfx, A, ev, (t, m, inner[0]), ci, oi, True, lambda j: sel(data, ci, oi, j), canon_nd_n(inner[0].n, data), sp, ndims=nd)
    widening(ctx, pfx, A, b)
    into = ev.events(lambda e: False)
    errdisc(ctx, pfx, A, ev, sp, closer)


def canon_row_count(n, il):
    """trip count of the dim loop as the number of row values read: a loop that walks the builder vector and the row in lockstep
    runs min(len(builders), row length) times -- the row length is the other operand (the builder count is decided by dim_count_ok)"""
    if T.is_app(n, 'min') and len(n[2]) == 2:
        heads = [T.app('len', h) for l_ in (il if isinstance(il, tuple) else (il,)) for h in l_.lh.values()]
        rest = [a for a in n[2] if a not in heads]
        if len(rest) == 1:
            return rest[0]
    return n


def canon_nd_n(n, data):
    return n


def tensor_parquet(ctx):
    A = 'io::parquet::save_parquet_tensor'
    pfx = 'C17.parquet_tensor'
    b = ctx.anchor(A, path=A)
    if b is None:
        ctx.unknown(pfx, A, 'anchor', why='anchor not found')
        return
    ev = ctx.evaluate(b)
    sp = b['sp']
    X = S('tensor')
    ctx.extra['_ranks'] = {}
    dims = T.app('dims', X)
    s0, s1, s2 = [index_term(dims, N(i)) for i in range(3)]
    sch = ev.events(lambda e: e.key == 'arrow::datatypes::Schema::new')
    ctx.check(pfx + '.labels', A, 'labels', len(sch) == 1 and sch[0].args[0] is labels_fields(s2, 'observation', 'chain'), expected='schema [observation, chain, dim_j ..] (documented [observation, chain, dim] tensor layout)',
              found=show(sch[0].args[0])[:300] if sch else 'no schema', sp=sp, why='documented schema of the tensor variant')
    rl = row_loops(ev, A)
    if len(rl) != 1 or len(rl[0][2]) != 1:
        ctx.unknown(pfx + '.values', A, 'values', why='expected one (observation, chain, dim) triple loop', sp=sp)
    else:
        t, m, inner = rl[0]
        oi, ci = t.var, m.var
        il = inner[0]
        okloops = t.n is s0 and m.n is s1 and ev.t(t.elem) is oi and ev.t(m.elem) is ci
        ctx.check(pfx + '.values.loops', A, 'loops', okloops, expected='observation loop over axis 0 (s0), chain loop over axis 1 (s1)', found='n=%s / %s' % (show(t.n), show(m.n)), sp=t.sp, why='documented axis order of the tensor variant')
        # the row of the flat buffer the dim loop reads its values from: X[off + j]
        offs = {flat_row(X, v, il.var) for v in il.next.values() if isinstance(v, T.Tm) and any(y is X for y in T.subterms(v))}
        if len(offs) == 1 and None not in offs:
            off = list(offs)[0]
            # the flat buffer holds s0*s1*s2 values (the tensor's data): what is left of it at cell (i0, i1) is decided with i0 < s0, i1 < s1
            nrow = settle_monus(T.subst(il.n, {T.app('len', X): T.mul(T.mul(s0, s1), s2)}), {t.var: s0, m.var: s1})
            nfull = nrow
            nrow = canon_row_count(nrow, (t, m, il))
            offsets(ctx, pfx, A, X, oi, ci, s1, s2, nrow, off, il.sp)
            builders(ctx, pfx, A, ev, (t, m, il), ci, oi, False, lambda j: index_term(X, T.add(off, j)), s2, sp, n_term=nfull)
        else:
            ctx.unknown(pfx + '.offset', A, 'offset', why='row slice not identified', sp=sp)
    widening(ctx, pfx, A, b)
    errdisc(ctx, pfx, A, ev, sp, 'parquet::arrow::ArrowWriter::close')
