"""C07 — same seed, same output (DESIGN.md section 4/C07, Appendix A.C07)."""
from ..speclib import *
from .. import effects as E

TITLE = 'Every run-path draw comes from a sampler-owned generator that the seeding API overwrites; no global/thread/OS randomness on run paths'
EXPLANATION = ('Effect analysis over the value-flow evaluation of every sampler\'s run paths (step, run, run_progress and everything they inline): '
               'R7.1 each draw consumes a generator rooted at a field of the sampler/chain, and the sampler\'s seeding method overwrites that field '
               '(for proposals: re-seeds through Proposal::set_seed and stores the result back) for every chain; no draw from burn\'s process-global '
               'generator, rand::rng() or OS entropy; R7.2 every generator draw is live (reaches the state, the result or another effect); '
               'R7.3 per-chain seed derivation is total on u64 (no overflow-checked +,-,* on seeds); R7.4 no statics on run paths, generators owned '
               'by value; R7.5 seeded initialisers are pure (seed -> local generator -> draws) and init_det = init_with_seed(.,.,42). '
               'Different-seeds-differ is a statement about the generator, not decided.')
TECHNIQUE = 'effect / generator-provenance analysis over the inlined call graph (value-flow events), liveness of draws, THIR arithmetic scan'
ASSUMPTIONS = ['Gibbs: randomness inside a user Conditional is excluded (no seeding handle), as the property states',
               'rayon indexed collect / thread::scope join preserve chain order (trusted library contract)']

MH, GIBBS, HMC, NUTS = 'MH', 'Gibbs', 'HMC', 'NUTS'


def anchors(ctx):
    f = ctx.find_fn
    A = {}

    def one(desc, **kw):
        bs = f(**kw)
        A[desc] = bs[0] if len(bs) == 1 else None
    one('MH.step', name='step', trait='core::MarkovChain', self_head='metropolis_hastings::MHMarkovChain')
    one('MH.seed', name='seed', self_head='metropolis_hastings::MetropolisHastings', container='inherent')
    one('MH.new', name='new', self_head='metropolis_hastings::MetropolisHastings', container='inherent')
    one('Gibbs.step', name='step', trait='core::MarkovChain', self_head='gibbs::GibbsMarkovChain')
    one('Gibbs.seed', name='set_seed', self_head='gibbs::GibbsSampler', container='inherent')
    one('HMC.step', name='step', self_head='hmc::HMC', container='inherent')
    one('HMC.run', name='run', self_head='hmc::HMC', container='inherent')
    one('HMC.run_progress', name='run_progress', self_head='hmc::HMC', container='inherent')
    one('HMC.seed', name='set_seed', self_head='hmc::HMC', container='inherent')
    one('NUTS.chain_run', name='run', self_head='nuts::NUTSChain', container='inherent')
    A['NUTS.chain_run_progress'] = ctx.helper('nuts.chain_run_progress')
    one('NUTS.step', name='step', self_head='nuts::NUTSChain', container='inherent')
    one('NUTS.run', name='run', self_head='nuts::NUTS', container='inherent')
    one('NUTS.run_progress', name='run_progress', self_head='nuts::NUTS', container='inherent')
    one('NUTS.seed', name='set_seed', self_head='nuts::NUTS', container='inherent')
    one('NUTS.chain_seed', name='set_seed', self_head='nuts::NUTSChain', container='inherent')
    one('core.run', name='run', trait='core::ChainRunner', container='trait')
    one('core.run_progress', name='run_progress', trait='core::ChainRunner', container='trait')
    one('core.run_chain', path='core::run_chain')
    one('core.run_chain_progress', path='core::run_chain_progress')
    one('init_with_seed', path='core::init_with_seed')
    one('init_det', path='core::init_det')
    A['_init'] = ctx.helper('core._init')
    one('init', path='core::init')
    return A


RUN_PATHS = {
    MH: ['MH.step', 'core.run', 'core.run_progress', 'core.run_chain', 'core.run_chain_progress'],
    GIBBS: ['Gibbs.step'],
    HMC: ['HMC.step', 'HMC.run', 'HMC.run_progress'],
    NUTS: ['NUTS.step', 'NUTS.chain_run', 'NUTS.chain_run_progress', 'NUTS.run', 'NUTS.run_progress'],
}
SEEDERS = {MH: 'MH.seed', GIBBS: 'Gibbs.seed', HMC: 'HMC.seed', NUTS: 'NUTS.seed'}


def slot_of(site):
    d = site.dist()
    m = re.match(r'adt:(?:[A-Za-z0-9_]+::)*([A-Za-z0-9_]+)', d)
    if m:
        return m.group(1)
    d = re.sub(r'[^A-Za-z0-9_<>]+', '_', d)[:40]
    return d


def seeded_fields(ctx, sampler, b):
    """fields that the seeding method overwrites on every chain (or on the sampler itself): {field: term}"""
    ev = ctx.evaluate(b)
    pcs = E.per_chain_sets(ev)
    if pcs is not None:
        ls, idx, base, fields = pcs
        whole = ls.n is T.app('len', selff('chains')) and not ls.exits
        return ev, fields, idx, whole, ls
    ret = ev.ret_term
    fields = {}
    if T.is_app(ret, 'with') and ret[2][0] is S('self'):
        for s_ in ret[2][1:]:
            fields[s_[1][4:]] = s_[2][0]
    return ev, fields, None, True, None


def run(ctx):
    A = anchors(ctx)
    missing = [k for k, v in A.items() if v is None]
    for k in missing:
        ctx.unknown('C07.anchor', k, 'anchor', why='anchor not found or ambiguous: %s' % k)

    # ---------------------------------------------------------------- R7.1 / R7.2 : draw sites on run paths
    drawn = {}          # sampler -> {field: [sites]}
    seen = set()
    n_sites = 0
    for sampler, names in RUN_PATHS.items():
        drawn[sampler] = {}
        for nm in names:
            b = A.get(nm)
            if b is None:
                continue
            ev = ctx.evaluate(b)
            for site in E.rng_sites(ev):
                idn = (sampler,) + site.ident()
                if site.kind == 'seed':
                    continue
                if idn in seen:
                    continue
                seen.add(idn)
                n_sites += 1
                anchor = site.owner or nm
                if site.kind in ('global_draw', 'thread_rng', 'entropy', 'global_seed'):
                    ctx.bad('C07.R7.1', anchor, slot_of(site) if site.kind == 'global_draw' else site.kind, rule='global-rng',
                            expected='a generator owned by the sampler and overwritten by its seeding method',
                            found={'global_draw': 'Tensor::random: burn\'s process-global generator', 'thread_rng': 'rand::rng() thread-local generator',
                                   'entropy': 'OS entropy', 'global_seed': 'Backend::seed (global)'}[site.kind] + ' ' + site.dist(),
                            why='draws from process-global / thread-local / OS randomness cannot be reproduced from the sampler\'s seed and depend on other users of that source', sp=site.sp)
                    continue
                root = site.gen_root or '?'
                if root.startswith('self.'):
                    fld_ = root[len('self.'):]
                    drawn[sampler].setdefault(fld_, []).append(site)
                    slot = 'draw:' + slot_of(site) + '<-' + root
                    nth = sum(1 for o in ctx.obs if o.oid == 'C07.R7.1' and o.anchor == anchor and (o.slot == slot or o.slot.startswith(slot + '~')))
                    ctx.ok('C07.R7.1', anchor, slot if nth == 0 else '%s~%d' % (slot, nth + 1), expected='sampler-owned generator', found=root, sp=site.sp,
                           why='draw consumes a generator stored in the sampler/chain')
                else:
                    ctx.bad('C07.R7.1', anchor, 'draw:' + slot_of(site), rule='foreign-generator', expected='generator rooted at a field of the sampler/chain',
                            found=root, sp=site.sp, why='a run-path draw must consume the chain\'s own (seedable) generator')
                # R7.2 liveness (only meaningful in the body that owns the draw)
                if not E.is_live(ev, site):
                    ctx.bad('C07.R7.2', anchor, 'dead-draw:' + root, rule='dead-seed', expected='the drawn value reaches the state, the result or another effect',
                            found='values drawn from %s are never used' % root, sp=site.sp,
                            why='a generator that is seeded and drawn from, but whose values are discarded, does not control the sampler (stated belief "set_seed ensures reproducibility" contradicted)')
            # user-trait draws with a seeding handle: Proposal::sample
            for e in ev.events(lambda e: e.key == 'distributions::Proposal::sample'):
                idn = (sampler, e.owner, e.sp)
                if idn in seen:
                    continue
                seen.add(idn)
                n_sites += 1
                root = root_place(e.args[0]) or '?'
                if root.startswith('self.'):
                    drawn[sampler].setdefault(root[5:], []).append(e)
    ctx.extra['draw_sites_on_run_paths'] = n_sites

    # ---------------------------------------------------------------- seeding coverage
    seed_exprs = {}
    for sampler, nm in SEEDERS.items():
        b = A.get(nm)
        if b is None:
            continue
        ev, fields, idx, whole, ls = seeded_fields(ctx, sampler, b)
        anchor = strip_generics(b['path'])
        ctx.check('C07.R7.1.all_chains', anchor, 'all-chains', whole, expected='the seeding method visits every chain (0..len(chains)), no early exit',
                  found='loop n=%s exits=%s' % (show(ls.n) if ls else '-', len(ls.exits) if ls else 0), sp=b['sp'],
                  why='every chain must be re-seeded')
        for fld_, sites in sorted(drawn.get(sampler, {}).items()):
            val = fields.get(fld_)
            how = None
            if val is not None and T.is_app(val, 'seed_from_u64'):
                how = val[2][0]
            elif val is not None and T.is_app(val, 'distributions::Proposal::set_seed'):
                how = val[2][1]
            dep_seed = how is not None and contains(how, S('seed'))
            if dep_seed:
                seed_exprs[(sampler, fld_)] = (how, idx)
                ctx.ok('C07.R7.1.seeded', anchor, fld_, expected='overwritten from the seed', found=show(val), sp=b['sp'],
                       why='the generator consumed on the run path is re-seeded by the seeding API')
            else:
                ctx.bad('C07.R7.1.seeded', anchor, fld_, rule='unseeded-generator', expected='%s of every chain overwritten by a generator derived from `seed`' % fld_,
                        found=show(val) if val is not None else 'field not written by the seeding method', sp=b['sp'],
                        why='run-path draws consume self.%s, which the seeding method never re-seeds: equal seeds give different output' % fld_)
    # ---------------------------------------------------------------- R7.3 total seed derivation
    for nm in ('MH.seed', 'Gibbs.seed', 'HMC.seed', 'NUTS.seed', 'NUTS.chain_seed'):
        b = A.get(nm)
        if b is None:
            continue
        anchor = strip_generics(b['path'])
        bad = E.checked_u64_arith(b, ctx.facts)
        if bad:
            ctx.bad('C07.R7.3', anchor, 'seed-derivation', rule='checked-seed-arith', expected='wrapping arithmetic on u64 seeds (defined for every seed incl. u64::MAX)',
                    found='%d overflow-checked u64 operation(s): %s' % (len(bad), ', '.join('%s at %s' % (n.get('op'), n.get('sp')) for n in bad)), sp=b['sp'],
                    why='`seed + i` panics under overflow checks for seeds near u64::MAX; the seeding API must be total on u64')
        else:
            ctx.ok('C07.R7.3', anchor, 'seed-derivation', expected='no overflow-checked u64 arithmetic', found='none', sp=b['sp'], why='seed derivation is total on u64')
    # the chain-level seeding entry point of NUTS (public API of its own; NUTS::set_seed need not go through it)
    b = A.get('NUTS.chain_seed')
    if b is not None:
        ev = ctx.evaluate(b)
        anchor = strip_generics(b['path'])
        try:
            val = fld(ev.ret_term, 'rng')       # builder style: takes and returns self by value
        except Exception:
            val = None
        others = [s_.kind for s_ in E.rng_sites(ev) if s_.kind != 'seed']
        ctx.check('C07.R7.2.chain_seed', anchor, 'rng', val is T.app('seed_from_u64', S('seed')) and not others, expected='self.rng = seed_from_u64(seed) for every seed; no other randomness source',
                  found='%s; other sources: %s' % (show(val) if val is not None else 'self.rng not written', others or 'none'), sp=b['sp'],
                  why='a seeded NUTS chain must be reproducible for every u64 seed (no sentinel value meaning "random")')
    # ---------------------------------------------------------------- R7.4 statics, ownership
    stat = []
    for b in ctx.facts.bodies:
        if ctx.facts.is_hand_written(b) and b['def_kind'] in ('Fn', 'AssocFn'):
            stat += [(strip_generics(b['path']), n) for n in E.static_refs(b, ctx.facts)]
    ctx.check('C07.R7.4.statics', 'crate', 'statics', not stat, expected='no static / thread-local access in the crate', found=', '.join('%s: %s' % (p, n.get('path')) for p, n in stat) or 'none',
              why='shared mutable state makes output depend on schedules and on other samplers in the process')
    for sp_, fields in (('metropolis_hastings::MHMarkovChain', ['rng']), ('gibbs::GibbsMarkovChain', ['rng']), ('hmc::HMC', ['rng']), ('nuts::NUTSChain', ['rng']), ('distributions::IsotropicGaussian', ['rng'])):
        st = ctx.facts.structs.get(sp_)
        if st is None:
            ctx.unknown('C07.R7.4.owned', sp_, 'rng-field', why='struct not found')
            continue
        for fn_ in fields:
            tys = [f['ty'] for f in st['fields'] if f['name'] == fn_]
            okk = bool(tys) and not any(x in tys[0] for x in ('&', 'Arc', 'Rc<', 'Mutex', 'RefCell', 'static'))
            ctx.check('C07.R7.4.owned', sp_, fn_, okk, expected='generator owned by value', found=tys[0] if tys else 'no such field',
                      why='a chain\'s generator must not be shared with other chains/threads')
    # ---------------------------------------------------------------- R7.5 seeded initialisers
    purity(ctx, A)
    # ---------------------------------------------------------------- R7.6 / R7.7 (shared rules, decided here under C07 as well)
    # schedule independence of the collected output: chains are gathered by index-preserving collectors (no arrival-order channel)
    from .C09 import runner_run, nuts_run, hmc_run
    from .C10 import core_worker, nuts_worker, hmc_progress
    nc, nd = S('n_collect'), S('n_discard')
    runner_run(ctx, nc, nd)
    nuts_run(ctx, nc, nd)
    for nm in ('core.run', 'NUTS.run', 'HMC.run'):
        b = A.get(nm)
        if b is None:
            continue
        ev = ctx.evaluate(b)
        conc = [e.op for e in ev.vf.events if e.op in ('channel', 'spawn', 'spawn_scoped') or (e.key or '').startswith('std::sync::mpsc::')]
        ctx.check('C07.R7.7.no_arrival_order', strip_generics(b['path']), 'collect', not conc, expected='no channel / thread hand-off on the run() path: results are gathered by index',
                  found=', '.join(conc) or 'none', sp=b['sp'], why='output assembled in completion order depends on the schedule and the thread count')
    # progress mode performs the same transitions and consumes the same draws as run
    core_worker(ctx, nc, nd)
    nuts_worker(ctx, nc, nd)
    hmc_progress(ctx, nc, nd)
    # ... and assembles the per-chain results by chain index (an order-dropping parallel bridge or a completion-order gather
    # makes the returned array depend on the schedule)
    from .C10 import stats_from_returned
    got = ctx.borrow(lambda c: stats_from_returned(c, nc, nd), lambda oid: oid.startswith('C10.collect.'))
    if len(got) < 2:
        ctx.unknown('C07.R7.7.collect', 'run_progress', 'collect', why='collect obligations of the two progress runners could not be instantiated (%d of 2)' % len(got))
    par_reductions(ctx)
    # the seeding entry points reach the code the analysis anchors: no inherent method shadows a trait method on the sampler /
    # proposal types, and Proposal::set_seed stays a REQUIRED method (a provided default would silently leave implementors unseeded)
    from .. import frame
    frame.shadowing(ctx, 'C07', ['distributions::IsotropicGaussian', 'metropolis_hastings::MHMarkovChain', 'metropolis_hastings::MetropolisHastings', 'gibbs::GibbsMarkovChain', 'gibbs::GibbsSampler', 'hmc::HMC', 'nuts::NUTSChain', 'nuts::NUTS'])
    frame.required_method(ctx, 'C07', 'distributions::Proposal', 'set_seed',
                          why='MetropolisHastings::new / seed re-seed each chain\'s proposal through this method; the analysis treats the call as "returns the proposal re-seeded with the argument", which only an implementor can do')


UNORDERED_REDUCTIONS = ('rayon::iter::ParallelIterator::reduce', 'rayon::iter::ParallelIterator::reduce_with', 'rayon::iter::ParallelIterator::sum',
                        'rayon::iter::ParallelIterator::product', 'rayon::iter::ParallelIterator::try_reduce', 'rayon::iter::ParallelIterator::try_reduce_with',
                        'rayon::iter::ParallelIterator::fold', 'rayon::iter::ParallelIterator::fold_with', 'rayon::iter::ParallelIterator::try_fold')


def par_reductions(ctx):
    """floating-point addition is not associative and rayon's reduction tree follows the pool size and the schedule: a parallel
    reduce / sum / fold whose items carry floats makes the result (samples or diagnostics) depend on the thread count.  Indexed
    parallel maps collected in order are fine (and are what the crate uses).  Crate-wide scan, typed on the reduction's result."""
    hits, n_par = [], 0
    for b in ctx.facts.bodies:
        if not ctx.facts.is_hand_written(b) or b['def_kind'] not in ('Fn', 'AssocFn', 'Closure'):
            continue
        root = ctx.facts.closure_root(b) or b
        path = strip_generics(root['path'])
        if 'tests::' in path or path.startswith('dev_tools'):
            continue

        def f(n, path=path):
            nonlocal n_par
            if n.get('k') == 'Call' and isinstance(n.get('fn'), dict):
                key = callee_key(n['fn'])
                if key.startswith('rayon::'):
                    n_par += 1
                if key in UNORDERED_REDUCTIONS and re.search(r'\bf(32|64)\b|Tensor<|\bT\b|\bF\b', str(n.get('ty', ''))):
                    hits.append('%s in %s (%s)' % (key.rsplit('::', 1)[1], path, str(n.get('ty'))[:60]))
        walk(b.get('thir'), f)
    ctx.check('C07.R7.8.par_reduce', 'crate', 'parallel-reductions', not hits and n_par > 0,
              expected='no rayon reduce / sum / fold over floating-point items (parallel work is an indexed map collected in order)',
              found='; '.join(hits) or '%d rayon calls, none an unordered floating-point reduction' % n_par, sp=None,
              why='f32/f64 addition is not associative: a parallel reduction tree gives results that differ in the low bits between pool sizes and schedules')


def purity(ctx, A):
    b_ws, b_det, b_in, b_init = A.get('init_with_seed'), A.get('init_det'), A.get('_init'), A.get('init')
    for nm, b in (('init_with_seed', b_ws), ('init_det', b_det), ('_init', b_in)):
        if b is None:
            continue
        ev = ctx.evaluate(b)
        sites = E.rng_sites(ev)
        bad = []
        for s_ in sites:
            if s_.kind == 'seed':
                a = s_.args[0]
                if not (a is S('seed') or T.is_num(a)):
                    bad.append('seed from %s' % show(a))
            elif s_.kind == 'draw':
                o = s_.gen_origin
                if not (T.is_app(o, 'seed_from_u64') or o is S('rng')):
                    bad.append('draw from %s' % show(o))
            else:
                bad.append(s_.kind)
        ctx.check('C07.R7.5.pure', 'core::' + nm, 'effects', not bad and any(s_.kind == 'draw' for s_ in sites),
                  expected='effects within {seed local generator from the argument, draw from that local generator}', found='; '.join(bad) or 'pure',
                  why='seeded initialisers are pure functions of their arguments', sp=b['sp'])
    if b_ws is not None and b_det is not None:
        r1 = ctx.evaluate(b_ws)
        r2 = ctx.evaluate(b_det)
        s1 = [s_.args[0] for s_ in E.rng_sites(r1) if s_.kind == 'seed']
        s2 = [s_.args[0] for s_ in E.rng_sites(r2) if s_.kind == 'seed']
        same = canon_loops(r1.ret_term) is canon_loops(r2.ret_term)
        ctx.check('C07.R7.5.det42', 'core::init_det', 'seed', s1 == [S('seed')] and s2 == [N(42)] and same,
                  expected='init_det(n, d) = init_with_seed(n, d, 42) (same body, arguments in order)', found='seeds %s / %s, same shape: %s' % ([show(x) for x in s1], [show(x) for x in s2], same),
                  why='documented equality', sp=b_det['sp'])
    if b_init is not None:
        ev = ctx.evaluate(b_init)
        kinds = sorted(set(s_.kind for s_ in E.rng_sites(ev)))
        ctx.check('C07.R7.5.init_os', 'core::init', 'source', kinds == ['draw', 'entropy'], expected='OS-seeded local generator + draws', found=str(kinds),
                  why='the unseeded initialiser draws from a fresh OS-seeded generator (not from a shared one)', sp=b_init['sp'])


def canon_loops(t):
    """rename loop-numbered symbols (lhN:, lxN:, loopN) by order of first occurrence"""
    m = {}
    order = {}
    for x in reversed(list(T.subterms(t))):
        pass
    out = {}
    for x in T.subterms(t):
        if x[0] == 'sym':
            mm = re.match(r'(lh|lx|loop|it)(\d+)(.*)', x[1])
            if mm:
                order.setdefault(mm.group(2), len(order))
    for x in T.subterms(t):
        if x[0] == 'sym':
            mm = re.match(r'(lh|lx|loop|it)(\d+)(.*)', x[1])
            if mm:
                out[x] = T.sym('%s#%d%s' % (mm.group(1), order[mm.group(2)], mm.group(3)))
    return T.subst(t, out) if out else t
