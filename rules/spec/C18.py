"""C18 — initial-position helpers (DESIGN.md section 4/C18, Appendix A.C18)."""
from ..speclib import *
from .. import effects as E
from .C07 import canon_loops

TITLE = 'init / init_det / init_with_seed: n vectors of length d, StandardNormal per element from one stream in row-major order; seeded variants pure; init_det = init_with_seed(.,.,42)'
EXPLANATION = ('Loop summaries and effect sets of core::_init and its three entry points: outer trip count n, inner trip count d, one '
               'T::from_f64(StandardNormal.sample(&mut rng)) per element collected in iteration order from ONE generator (row-major single stream => a request for fewer rows '
               'is a prefix of a larger one with the same d and seed); init_with_seed seeds a local generator from its argument and has no other effect; '
               'init_det(n, d) = init_with_seed(n, d, 42) with arguments in order; init seeds from the OS. Normality/independence as statistics are not decided (draw kind only).')
TECHNIQUE = 'loop summaries (nested trip counts, single carried generator) + effect-set analysis'


def run(ctx):
    for nm in ('init', 'init_det', 'init_with_seed'):
        _r = ctx.anchor('core::' + nm, path='core::' + nm)
        if _r is not None:
            narrowing_budget(ctx, 'C18', 'core::' + nm, [_r], {}, why='a conversion to a fixed narrower float type (or an f64 -> element-type read-back) on this path changes values for wider element types / back ends', sp=_r['sp'])
    A = 'core::_init'
    b = ctx.helper('core._init')
    bw = ctx.anchor('core::init_with_seed', path='core::init_with_seed')
    bd = ctx.anchor('core::init_det', path='core::init_det')
    bi = ctx.anchor('core::init', path='core::init')
    for nm, x in (('_init', b), ('init_with_seed', bw), ('init_det', bd), ('init', bi)):
        if x is None:
            ctx.unknown('C18.anchor', 'core::' + nm, 'anchor', why='anchor not found')
    if b is not None:
        shape(ctx, A, b)
    if bw is not None:
        ev = ctx.evaluate(bw)
        sites = E.rng_sites(ev)
        seeds = [s for s in sites if s.kind == 'seed']
        draws = [s for s in sites if s.kind == 'draw']
        others = [s.kind for s in sites if s.kind not in ('seed', 'draw')]
        ok = len(seeds) == 1 and seeds[0].args[0] is S('seed') and draws and all(T.is_app(E.origin(ev, d.gen), 'seed_from_u64') and E.origin(ev, d.gen)[2][0] is S('seed') for d in draws) and not others
        ctx.check('C18.seeded_gen', 'core::init_with_seed', 'generator', ok, expected='local generator = seed_from_u64(seed); every draw from it; no other randomness source',
                  found='seeds %s, draw origins %s, others %s' % ([show(s.args[0]) for s in seeds], sorted(set(show(E.origin(ev, d.gen)) for d in draws)), others), sp=bw['sp'],
                  why='pure function of (n, d, seed)')
        io = [e.op for e in ev.vf.events if e.op not in ('seed', 'draw') and not (e.key or '').startswith('core::')]
        ctx.check('C18.pure', 'core::init_with_seed', 'effects', not ev.written_ext() and not [e for e in ev.vf.events if e.op in ('global_draw', 'thread_rng', 'entropy', 'channel', 'spawn')], expected='no effect besides seeding and drawing from the local generator',
                  found=', '.join(io) or 'none', sp=bw['sp'], why='purity')
        if b is not None:
            # forwards (n, d, rng) in order
            e1 = ctx.evaluate(b)
            ctx.check('C18.fwd.ret', 'core::init_with_seed', 'result', canon_loops(ev.ret_term) is canon_loops(e1.ret_term), expected='returns what the construction helper returns, on every path',
                      found=show(ev.ret_term)[:300], sp=bw['sp'], why='a guard clause or a post-processing step in the entry point changes the sample for the inputs it singles out')
            ctx.check('C18.fwd', 'core::init_with_seed', 'forward', shape_sig(ctx, ev) == shape_sig(ctx, e1), expected='_init(n, d, generator) with n and d in order', found=str(shape_sig(ctx, ev)), sp=bw['sp'],
                      why='swapped n/d would transpose the result')
    if bd is not None and bw is not None:
        r1, r2 = ctx.evaluate(bw), ctx.evaluate(bd)
        s2 = [s.args[0] for s in E.rng_sites(r2) if s.kind == 'seed']
        ctx.check('C18.det_is_seed_42', 'core::init_det', 'seed', s2 == [N(42)] and shape_sig(ctx, r1) == shape_sig(ctx, r2) and canon_loops(r1.ret_term) is canon_loops(r2.ret_term), expected='init_det(n, d) = init_with_seed(n, d, 42)', found='seed %s, shape %s' % ([show(x) for x in s2], shape_sig(ctx, r2)), sp=bd['sp'],
                  why='documented equality')
    if bi is not None:
        ev = ctx.evaluate(bi)
        kinds = sorted(set(s.kind for s in E.rng_sites(ev)))
        ent = [s for s in E.rng_sites(ev) if s.kind == 'entropy']
        draws = [s for s in E.rng_sites(ev) if s.kind == 'draw']
        ok = kinds == ['draw', 'entropy'] and len(ent) == 1 and all(E.origin(ev, d.gen) is ent[0].res for d in draws) and shape_sig(ctx, ev)[0:2] == ('n', 'd')
        if b is not None:
            ctx.check('C18.init_os.ret', 'core::init', 'result', canon_loops(ev.ret_term) is canon_loops(ctx.evaluate(b).ret_term), expected='returns what the construction helper returns, on every path',
                      found=show(ev.ret_term)[:300], sp=bi['sp'], why='same shape and distribution as the seeded variants for every (n, d)')
        ctx.check('C18.init_os', 'core::init', 'source', ok, expected='one OS-seeded local generator, all draws from it, shape (n, d)', found=str(kinds), sp=bi['sp'], why='unseeded variant: fresh entropy, same shape and distribution')


CONSTRUCT = ('forced', 'for')     # iterator pipelines (map/collect) and explicit for + push are the same construction


def loop_view(ls):
    """(generator keys, accumulator key or None, element produced per iteration) of a construction loop, whichever way it is written"""
    if ls.kind == 'forced':
        return carried_keys(ls), None, getattr(ls, 'result_term', None)
    accs = [k for k in ls.lh if T.is_app(ls.next[k], 'push') and ls.next[k][2][0] is ls.lh[k]]
    if len(accs) != 1:
        return carried_keys(ls), None, None
    return [k for k in carried_keys(ls) if k is not accs[0]], accs[0], ls.next[accs[0]][2][1]


def shape_sig(ctx, ev):
    """(outer trip count, inner trip count, draws per element) of the nested construction loops"""
    ik = ctx.helper_key('core._init', 'core::_init')
    outer = [ls for ls in ev.vf.loops if ls.kind in CONSTRUCT and not ls.ctx and (ls.owner or '') == ik]
    if len(outer) != 1:
        return ('?',)
    inner = [ls for ls in ev.vf.loops if ls.ctx == (outer[0].uid,) and ls.kind in CONSTRUCT]
    if len(inner) != 1:
        return (show(outer[0].n), '?')
    nd = len([e for e in inner[0].events if e.op == 'draw'])
    return (show(outer[0].n), show(inner[0].n), nd)


def shape(ctx, A, b):
    ev = ctx.evaluate(b)
    sp = b['sp']
    n, d, rng = S('n'), S('d'), S('rng')
    outer = [ls for ls in ev.vf.loops if ls.kind in CONSTRUCT and not ls.ctx]
    if len(outer) != 1:
        ctx.unknown('C18.shape', A, 'loops', why='expected one outer construction loop', sp=sp)
        return
    lo = outer[0]
    inner = [ls for ls in ev.vf.loops if ls.ctx == (lo.uid,) and ls.kind in CONSTRUCT]
    ctx.check('C18.shape.outer_n', A, 'outer', lo.n is n and not lo.exits, expected='n rows', found=show(lo.n), sp=lo.sp, why='exactly n vectors')
    if len(inner) != 1:
        ctx.unknown('C18.shape.inner_d', A, 'inner', why='expected one inner loop per row', sp=sp)
        return
    li = inner[0]
    ctx.check('C18.shape.inner_d', A, 'inner', li.n is d and not li.exits, expected='d entries per row', found=show(li.n), sp=li.sp, why='each vector has length d')
    draws = [e for e in li.events if e.op == 'draw']
    gk, acc_i, elem_i = loop_view(li)
    gko, acc_o, elem_o = loop_view(lo)
    okelem = False
    if len(draws) == 1 and len(gk) == 1:
        dr = draws[0]
        lh = li.lh[gk[0]]
        okelem = dr.draw_kind == 'dist_sample' and 'StandardNormal' in show(dr.args[1]) and dr.args[0] is lh and li.next[gk[0]] is T.app('post0', dr.res) and elem_i is dr.res \
            and dr.gargs[1:2] == ['f64'] and (acc_i is None or li.init[acc_i] is T.app('array'))
    ctx.check('C18.elem', A, 'element', okelem, expected='one StandardNormal.sample(&mut rng) (f64) per element, converted with T::from_f64(..).unwrap(), generator advanced once', found='%d draws per element' % len(draws), sp=li.sp,
              why='independent standard-normal entries; finite f64 always converts')
    # single stream, row-major: the generator is the only carried place of both loops (besides the row / result being built), threaded inner -> outer
    okorder = len(gko) == 1 and len(gk) == 1 and keyrepr(gko[0]) == keyrepr(gk[0]) and li.init[gk[0]] is lo.lh[gko[0]] and lo.next[gko[0]] is li.lx[gk[0]] and lo.init[gko[0]] is rng
    ctx.check('C18.order', A, 'order', okorder, expected='one generator threaded through all n*d draws in row-major order (rows outer, entries inner)', found='outer carried %s, inner carried %s' % ([keyrepr(k) for k in lo.lh], [keyrepr(k) for k in li.lh]), sp=sp,
              why='the first rows of a larger request equal a smaller request with the same d and seed (prefix property)')
    # row r of the result is the r-th row drawn: the outer element is the inner collection, the result is the outer collection (started empty)
    if acc_o is None:
        okcol = T.is_app(ev.ret_term, 'eff') and ev.ret_term[2][0][2][0] is n
    else:
        row_ok = (acc_i is not None and elem_o is li.lx[acc_i]) or (acc_i is None and T.is_app(elem_o, 'eff'))
        okcol = ev.ret_term is lo.lx[acc_o] and lo.init[acc_o] is T.app('array') and row_ok
    ctx.check('C18.collect', A, 'collect', okcol, expected='rows collected in iteration order', found=show(ev.ret_term)[:200], sp=sp, why='row r of the result is the r-th row drawn')
