"""C13 — streaming trackers and progress R-hat (DESIGN.md section 4/C13, Appendix A.C13)."""
from ..speclib import *

TITLE = 'Streaming trackers report count / mean / unbiased variance of exactly what they were fed; progress R-hat = sqrt(var+/W); EMA in [0,1]'
EXPLANATION = ('Value-flow normal forms of ChainTracker::{new,step,stats}, MultiChainTracker::{new,step,rhat}, collect_rhat against the batch '
               'formulas: n += 1 once; mean := (mean (n-1) + x)/n, mean_sq likewise with x^2 (first-step case equal to the general formula at n = 1); '
               'sm2 = (mean_sq - mean^2) n/(n-1); collect_rhat = sqrt(var/W), W = mean_j sm2_j, var = (n-1)/n W + sum_j (mean_j - mean)^2/(m-1) with m the NUMBER '
               'OF CHAINS; MultiChainTracker::rhat the same form (B = n/(m-1) sum, var = (n-1)/n W + B/n); acceptance EMA p := (1-a) p + a [x != last], a = 1/100, '
               'indicator in {0,1}, initial value in [0,1] (negative sentinel replaced by the first indicator), last_state := x.')
TECHNIQUE = 'value-flow normal form vs specification table; sibling agreement; fold (loop) summary for the EMA'
HUND = T.div(T.ONE, N(100))


def xarr(shape_term, x=S('x')):
    return T.app('from_shape', shape_term, x)        # (the element-wise to_f32 image: conversions are value aliases, and an element-wise map of an alias is the array itself)


def tracker_step(ctx, pfx, A, b, shape_term, sentinel):
    ev = ctx.evaluate(b)
    sp = b['sp']
    n0, mean0, msq0, p0, last0 = selff('n'), selff('mean'), selff('mean_sq'), selff('p_accept'), selff('last_state')
    X = xarr(shape_term)
    name_terms(X=X)
    nn = T.add(n0, T.ONE)
    fin = {f: assume_ok(ev.final_term('self.' + f)) for f in ('n', 'mean', 'mean_sq', 'p_accept', 'last_state')}
    ctx.eq(pfx + '.n', A, 'n', fin['n'], nn, why='the counter is incremented exactly once per update', sp=sp)
    exp_mean = T.div(T.add(T.mul(mean0, T.sub(nn, T.ONE)), X), nn)
    ctx.eq(pfx + '.mean', A, 'mean', fin['mean'], exp_mean, why='running mean: (mean (n-1) + x)/n with n the updated count', sp=sp)
    gen = T.div(T.add(T.mul(msq0, T.sub(nn, T.ONE)), T.powi(X, 2)), nn)
    first = T.ite(T.cmp('eq', n0, T.ZERO), T.powi(X, 2), gen)
    ctx.eq(pfx + '.mean_sq', A, 'mean_sq', fin['mean_sq'], gen, alts=[first], why='running mean of squares (a first-step special case must equal the general formula at n = 1)', sp=sp)
    ctx.check(pfx + '.first', A, 'first-step', T.subst(gen, {n0: T.ZERO}) is T.powi(X, 2), expected='general formula at n0 = 0 equals x^2',
              found=show(T.subst(gen, {n0: T.ZERO})), why='first-step special case is consistent', sp=sp)
    ctx.eq(pfx + '.ema.last_state', A, 'last_state', fin['last_state'], X, why='the next indicator compares with the state just fed', sp=sp)
    # the acceptance average: a fold over the paired rows, or the same written as a `for` with a running local
    folds = [ls for ls in ev.vf.loops if ls.kind == 'fold' or (ls.kind == 'for' and 'rows' in (ls.seq_desc or '') and len(carried_keys(ls)) == 1 and not ls.exits and not ls.ctx)]
    if len(folds) != 1 or len(carried_keys(folds[0])) != 1:
        for o in ('alpha', 'indicator', 'init'):
            ctx.unknown(pfx + '.ema.' + o, A, 'ema.' + o, why='expected one fold over the rows computing the acceptance EMA', sp=sp)
        return
    ls = folds[0]
    k = carried_keys(ls)[0]
    lh = ls.lh[k]
    nxt = ls.next[k]
    it = ls.var
    ind_c = T.cmp('ne', T.app('rows_at', X, it), T.app('rows_at', last0, it))
    ind = T.ite(ind_c, T.ONE, T.ZERO)
    ctx.eq(pfx + '.ema.alpha', A, 'ema', nxt, T.add(T.mul(T.sub(T.ONE, HUND), lh), T.mul(HUND, ind)),
           why='p := (1-a) p + a [x != last] with a = 0.01: a convex combination of p and an indicator in {0,1}', sp=ls.sp)
    ctx.eq(pfx + '.ema.final', A, 'p_accept', fin['p_accept'], ls.lx[k], why='the tracker stores the folded value', sp=sp)
    init = ls.init[k]
    if sentinel:
        first_ind = T.ite(T.cmp('ne', T.app('index_axis', X, AX(0), N(0)), T.app('index_axis', last0, AX(0), N(0))), T.ONE, T.ZERO)
        ctx.eq(pfx + '.ema.init', A, 'ema-init', init, T.ite(T.cmp('ge', p0, T.ZERO), p0, first_ind),
               why='a negative start sentinel is replaced by the first indicator, so the EMA starts in [0,1]', sp=sp)
    else:
        ctx.eq(pfx + '.ema.init', A, 'ema-init', init, p0, why='the EMA continues from the stored value', sp=sp)


def run(ctx):
    from .. import frame
    for adt, budgets in (('stats::ChainTracker', {'new': 1, 'step': 1, 'stats': 0}), ('stats::MultiChainTracker', {'new': 0, 'step': 1, 'rhat': 0, 'max_rhat': 0})):
        for nm, k in budgets.items():
            root = ctx.anchor(adt + '::' + nm, name=nm, self_head=adt, container='inherent')
            if root is not None:
                narrowing_budget(ctx, 'C13', adt.split('::')[-1] + '::' + nm, [root], {'narrow': k}, why='the trackers work in f32 by design: exactly one element-wise to_f32 of the incoming state; a conversion to a fixed narrower float type (or an f64 -> element-type read-back) on this path changes values for wider element types / back ends', sp=root['sp'])
    _cr = ctx.anchor('cr', path='stats::collect_rhat')
    if _cr is not None:
        narrowing_budget(ctx, 'C13', 'stats::collect_rhat', [_cr], {}, why='a conversion to a fixed narrower float type (or an f64 -> element-type read-back) on this path changes values for wider element types / back ends', sp=_cr['sp'])
    frame.std_impls_derived(ctx, 'C13', ['stats::ChainTracker', 'stats::ChainStats', 'stats::MultiChainTracker', 'stats::RunStats', 'stats::BasicStats'])
    for adt in ('stats::ChainTracker', 'stats::MultiChainTracker'):
        tab = {f: {adt + '::new'} for f in ('n_params', 'n_chains')}
        tab.update({f: {adt + '::new', adt + '::step'} for f in ('n', 'p_accept', 'last_state', 'mean', 'mean_sq')})
        st = ctx.facts.structs.get(adt)
        if st is not None:
            tab = {k: v for k, v in tab.items() if any(fl['name'] == k for fl in st['fields'])}
        frame.check_frame(ctx, 'C13', adt, tab, why='the running moments are a function of exactly the states fed to step(): nothing else may change them')
    # ---------------- ChainTracker
    CT = 'stats::ChainTracker'
    b = ctx.anchor('ChainTracker::step', name='step', self_head=CT, container='inherent')
    if b is None:
        ctx.unknown('C13.ct.step', 'ChainTracker::step', 'anchor', why='anchor not found')
    else:
        tracker_step(ctx, 'C13.ct', 'ChainTracker::step', b, selff('n_params'), sentinel=True)
    b = ctx.anchor('ChainTracker::new', name='new', self_head=CT, container='inherent')
    if b is None:
        ctx.unknown('C13.ct.new', 'ChainTracker::new', 'anchor', why='anchor not found')
    else:
        ret = ctx.evaluate(b).ret_term
        p = fld(ret, 'p_accept')
        okp = T.is_num(p) and (T.numval(p) < 0 or 0 <= T.numval(p) <= 1)
        ctx.check('C13.ct.new', 'ChainTracker::new', 'init', okp and fld(ret, 'n') is T.ZERO and T.is_app(fld(ret, 'mean'), 'zeros') and T.is_app(fld(ret, 'mean_sq'), 'zeros')
                  and fld(ret, 'last_state') is xarr(S('n_params'), S('initial_state')),
                  expected='n = 0, zero moments, last_state = initial state, p_accept a negative sentinel or a value in [0,1]', found=show(ret), sp=b['sp'],
                  why='a fresh tracker has seen nothing; the EMA start must lie in [0,1] after the first update')
    b = ctx.anchor('ChainTracker::stats', name='stats', self_head=CT, container='inherent')
    if b is None:
        ctx.unknown('C13.ct.stats', 'ChainTracker::stats', 'anchor', why='anchor not found')
    else:
        ret = ctx.evaluate(b).ret_term
        n, mean, msq = selff('n'), selff('mean'), selff('mean_sq')
        sm2 = T.div(T.mul(T.sub(msq, T.powi(mean, 2)), n), T.sub(n, T.ONE))
        exp = T.app('adt:stats::ChainStats', T.app('f:n', n), T.app('f:p_accept', selff('p_accept')), T.app('f:mean', mean), T.app('f:sm2', sm2))
        ctx.eq('C13.ct.sm2', 'ChainTracker::stats', 'stats', ret, exp, sp=b['sp'],
               why='reports the counter, the running mean and the unbiased variance (mean_sq - mean^2) n/(n-1)')

    # ---------------- collect_rhat
    A = 'stats::collect_rhat'
    b = ctx.anchor(A, path='stats::collect_rhat')
    if b is None:
        ctx.unknown('C13.cr', A, 'anchor', why='anchor not found')
    else:
        found = ctx.evaluate(b).ret_term
        cs = S('chain_stats')
        m = T.app('len', cs)
        i1, i2, i3 = S('k#1'), S('k#2'), S('k#3')
        means = T.app('stack', AX(0), mk_comp(m, i1, fld(index_term(cs, i1), 'mean')))
        sm2s = T.app('stack', AX(0), mk_comp(m, i2, fld(index_term(cs, i2), 'sm2')))
        within = T.app('mean_axis', sm2s, AX(0))
        gm = T.app('mean_axis', means, AX(0))
        diffs = T.sub(means, T.app('broadcast', gm, T.app('shape', means)))
        nbar = T.div(T.app('sum', mk_comp(m, i3, fld(index_term(cs, i3), 'n'))), m)
        name_terms(means=means, sm2s=sm2s)

        def form(mm):
            between = T.div(T.app('sum_axis', T.powi(diffs, 2), AX(0)), T.sub(mm, T.ONE))
            var = T.add(between, T.mul(within, T.div(T.sub(nbar, T.ONE), nbar)))
            return T.app('sqrt', T.div(var, within))
        chain_counts = [m, T.app('nrows', diffs), T.app('nrows', means), index_term(T.app('shape', means), N(0)), index_term(T.app('shape', diffs), N(0)),
                        T.app('len_of', means, AX(0)), T.app('len_of', diffs, AX(0))]
        elem_count = form(T.app('len', diffs))
        exps = [form(c) for c in chain_counts]
        ctx.eq('C13.cr.rhat', A, 'rhat', found, exps[0], alts=exps[1:], sp=b['sp'], rule='between-divisor' if found is elem_count else None,
               why='sqrt(var/W), W = mean_j sm2_j, var = (n-1)/n W + sum_j (mean_j - mean)^2/(m-1) with m the number of chains '
                   '(the element count of the [m, p] array of differences is m*p)')

    # ---------------- MultiChainTracker
    MT = 'stats::MultiChainTracker'
    b = ctx.anchor('MultiChainTracker::step', name='step', self_head=MT, container='inherent')
    if b is None:
        ctx.unknown('C13.mt.step', 'MultiChainTracker::step', 'anchor', why='anchor not found')
    else:
        tracker_step(ctx, 'C13.mt', 'MultiChainTracker::step', b, T.tup(selff('n_chains'), selff('n_params')), sentinel=False)
    b = ctx.anchor('MultiChainTracker::new', name='new', self_head=MT, container='inherent')
    if b is None:
        ctx.unknown('C13.mt.new', 'MultiChainTracker::new', 'anchor', why='anchor not found')
    else:
        ret = ctx.evaluate(b).ret_term
        p = fld(ret, 'p_accept')
        ctx.check('C13.mt.new', 'MultiChainTracker::new', 'init', T.is_num(p) and 0 <= T.numval(p) <= 1 and fld(ret, 'n') is T.ZERO
                  and T.is_app(fld(ret, 'mean'), 'zeros') and T.is_app(fld(ret, 'mean_sq'), 'zeros')
                  and fld(ret, 'n_chains') is S('n_chains') and fld(ret, 'n_params') is S('n_params'),
                  expected='n = 0, zero moments, p_accept in [0,1], shape fields as given', found=show(ret), sp=b['sp'],
                  why='the EMA start must lie in [0,1]')
    A = 'MultiChainTracker::rhat'
    b = ctx.anchor(A, name='rhat', self_head=MT, container='inherent')
    if b is None:
        ctx.unknown('C13.mt.rhat', A, 'anchor', why='anchor not found')
    else:
        found = assume_ok(ctx.evaluate(b).ret_term)
        mean, msq, n = selff('mean'), selff('mean_sq'), selff('n')
        gm = T.app('mean_axis', mean, AX(0))
        sm2 = T.div(T.mul(T.sub(msq, T.powi(mean, 2)), n), T.sub(n, T.ONE))
        within = T.app('mean_axis', sm2, AX(0))
        exps = []
        for mm in (index_term(T.app('shape', mean), N(0)), T.app('nrows', mean), selff('n_chains')):
            for cen in (T.app('insert_axis', gm, AX(0)), T.app('broadcast', gm, T.app('shape', mean))):
                bb = T.mul(T.app('sum_axis', T.powi(T.sub(mean, cen), 2), AX(0)), T.div(n, T.sub(mm, T.ONE)))
                var = T.add(T.mul(within, T.div(T.sub(n, T.ONE), n)), T.div(bb, n))
                exps.append(T.app('sqrt', T.div(var, within)))
        ctx.eq('C13.mt.rhat', A, 'rhat', found, exps[0], alts=exps[1:], sp=b['sp'],
               why='classical sqrt(var+/W) with B = n/(m-1) sum_j (mean_j - mean)^2, var+ = (n-1)/n W + B/n, W = mean_j sm2_j, m = number of chains '
                   '(same form as collect_rhat: sibling agreement)')
    A = 'MultiChainTracker::max_rhat'
    b = ctx.anchor(A, name='max_rhat', self_head=MT, container='inherent')
    rk = 'stats::MultiChainTracker::rhat'
    if b is None:
        ctx.unknown('C13.mt.max_rhat', A, 'anchor', why='anchor not found')
    else:
        ev = ctx.evaluate(b, no_inline=(rk,))
        found = assume_ok(ev.ret_term)
        calls = ev.events(lambda e: e.key == rk)
        ok = len(calls) == 1 and calls[0].args[0] is S('self') and found is T.app('max_all', assume_ok(calls[0].res))
        ctx.check('C13.mt.max_rhat', A, 'max', ok, expected='max over the parameters of self.rhat()', found=show(found)[:200], sp=b['sp'],
                  why='the progress display reports the WORST parameter: the largest R-hat of exactly the tracker\'s own rhat()')
