"""C04 — NUTS step size: dual averaging in warm-up, frozen afterwards (DESIGN.md section 4/C04, Appendix A.C04)."""
from ..speclib import *
from .. import effects as E
from .C03 import locate, ULG, HALF

TITLE = 'NUTS step size: Nesterov dual averaging (gamma .05, t0 10, kappa .75, mu = ln(10 eps0)) while m <= n_discard, then eps = eps_bar and never changes'
EXPLANATION = ('Value-flow normal forms of NUTSChain::new (constants, sentinel), init_chain (eps0 from the heuristic iff the sentinel test holds, mu = ln(10 eps), '
               'n_discard recorded), find_reasonable_epsilon (Algorithm 4: direction a = 2[logacc > ln 1/2] - 1, loop while a logacc > -a ln 2 { eps *= 2^a, every trial '
               'leapfrog from the same start point }), the adaptation tail of NUTSChain::step (single m += 1, eta = 1/(m+t0), h_bar, warm-up branch m <= n_discard with '
               'eps = exp(mu - sqrt(m)/gamma h_bar), eta\' = m^-kappa, eps_bar = exp((1-eta\') ln eps_bar + eta\' ln eps), else eps := eps_bar), and a crate-wide '
               'write-set analysis of the adaptation fields (who writes epsilon, epsilon_bar, m, n_discard, and under which guard) which gives the freeze: once m > n_discard, '
               'eps = eps_bar and neither changes. Positivity beyond "eps is an exp(.)" and realised acceptance rates are not decided.')
TECHNIQUE = 'value-flow normal form vs specification table + crate-wide field write-set (guarded writers) analysis'
CH = 'nuts::NUTSChain'


def run(ctx):
    consts(ctx)
    _st = ctx.anchor('NUTSChain::step', name='step', self_head=CH, container='inherent')
    narrowing_budget(ctx, 'C04', 'NUTSChain::step + warm-up initialisation', [_st, ctx.helper('nuts.init_chain')], {'numcast': 3},
                     why='a conversion to a fixed narrower float type (or an f64 -> element-type read-back) on this path changes values for wider element types / back ends (the three confirmed read-backs: the leaf joint in the tree builder, two acceptance ratios in the step-size heuristic)', sp=_st['sp'] if _st else None)
    runner_ctor(ctx)
    init_chain(ctx)
    fre(ctx)
    tail(ctx)
    writeset(ctx)
    # the acceptance statistic that drives the adaptation (shared with C03): min(1, exp(.)) per new point (NaN-absorbing
    # Float::min), summed over the subtree, taken from the last doubling
    from . import C03
    want = ('C03.b.alpha', 'C03.b.nalpha', 'C03.r.alpha_sum', 'C03.r.nalpha_sum', 'C03.t.alpha_last')
    got = ctx.borrow(C03.run, lambda oid: oid in want)
    if len(got) < len(want):
        ctx.unknown('C04.alpha_stat', 'NUTSChain::step', 'acceptance-statistic', why='acceptance-statistic obligations could not be instantiated (%d of %d)' % (len(got), len(want)))


def consts(ctx):
    A = 'NUTSChain::new'
    b = ctx.anchor(A, name='new', self_head=CH, container='inherent')
    if b is None:
        ctx.unknown('C04.const', A, 'anchor', why='anchor not found')
        return
    ret = ctx.evaluate(b).ret_term
    exp = {'gamma': T.div(N(5), N(100)), 't_0': N(10), 'kappa': T.div(N(3), N(4)), 'm': T.ZERO, 'h_bar': T.ZERO, 'epsilon_bar': T.ONE, 'epsilon': N(-1)}
    for f, v in exp.items():
        ctx.eq('C04.const.' + f, A, f, fld(ret, f), v, sp=b['sp'], why='dual-averaging constants / initial state of Hoffman & Gelman Algorithm 6 (epsilon = -1 is the "not yet initialised" sentinel)')
    ctx.eq('C04.const.delta', A, 'target_accept_p', fld(ret, 'target_accept_p'), S('target_accept_p'), sp=b['sp'], why='requested acceptance statistic stored as given')


def runner_ctor(ctx):
    """NUTS::new hands the requested acceptance rate (and the target) to every chain unchanged"""
    A = 'NUTS::new'
    b = ctx.anchor(A, name='new', self_head='nuts::NUTS', container='inherent')
    if b is None:
        ctx.unknown('C04.fwd.delta', A, 'anchor', why='anchor not found')
        return
    ev = ctx.evaluate(b)
    loops = [ls for ls in ev.vf.loops if getattr(ls, 'result_term', None) is not None and T.is_app(ls.result_term, 'adt:nuts::NUTSChain') and not ls.ctx]
    if len(loops) != 1:
        ctx.unknown('C04.fwd.delta', A, 'target_accept_p', why='per-chain construction loop not recognised (%d candidate loops)' % len(loops), sp=b['sp'])
        return
    rt = loops[0].result_term
    d = fld(rt, 'target_accept_p')
    ctx.eq('C04.fwd.delta', A, 'target_accept_p', d, S('target_accept_p'), sp=b['sp'],
           why='the multi-chain constructor must adapt towards the acceptance rate the caller asked for (any value in (0,1)), exactly as a NUTSChain built directly does')
    for f_, v in (('epsilon', N(-1)), ('m', T.ZERO)):
        ctx.eq('C04.fwd.' + f_, A, f_, fld(rt, f_), v, sp=b['sp'], why='chains start un-initialised (sentinel step size, counter 0) as NUTSChain::new builds them')


def init_chain(ctx):
    A = 'NUTSChain::init_chain (via run)'
    b = ctx.helper('nuts.init_chain')
    if b is None:
        ctx.unknown('C04.init', A, 'anchor', why='anchor not found')
        return
    frekey = ctx.helper_key('nuts.fre', 'nuts::find_reasonable_epsilon')
    ev = ctx.evaluate(b, no_inline=(frekey,))
    sp = b['sp']
    eps0, pos0, tgt = selff('epsilon'), selff('position'), selff('target')
    calls = ev.events(lambda e: e.key == frekey)
    sentinel = T.cmp('le', T.app('abs', T.add(eps0, T.ONE)), S('machine_eps'))
    if len(calls) != 1:
        ctx.bad('C04.init.eps0', A, 'eps0', expected='one call of the step-size heuristic', found=str(len(calls)), sp=sp, why='eps0 from the doubling/halving heuristic at the start point')
        return
    c = calls[0]
    draws = [s for s in E.rng_sites(ev) if s.kind == 'draw']
    okargs = c.args[0] is pos0 and c.args[2] is tgt and len(draws) == 1 and 'StandardNormal' in draws[0].dist() and contains(c.args[1], draws[0].res) and draws[0].gen_root == 'self.rng'
    ctx.check('C04.init.eps0.args', A, 'eps0-args', okargs, expected='heuristic(position, fresh StandardNormal momentum from the chain generator, target)', found='; '.join(show(a)[:80] for a in c.args), sp=c.sp,
              why='the heuristic is run at the start point with a standard-normal momentum')
    neweps = T.ite(sentinel, c.res, eps0)
    ctx.eq('C04.init.eps0', A, 'eps0', ev.final_term('self.epsilon'), neweps, sp=sp, why='the heuristic runs iff epsilon still holds the sentinel (first use); a persisted step size is kept on later run() calls')
    ctx.eq('C04.init.mu', A, 'mu', ev.final_term('self.mu'), T.app('ln', T.mul(N(10), neweps)), sp=sp, why='shrinkage point mu = ln(10 eps)')
    ctx.eq('C04.init.ndiscard', A, 'n_discard', T.tup(ev.final_term('self.n_discard'), ev.final_term('self.n_collect')), T.tup(S('n_discard'), S('n_collect')), sp=sp, why='warm-up length recorded from the arguments, in order')
    others = [w for w in ev.written_ext() if w not in ('self.epsilon', 'self.mu', 'self.n_discard', 'self.n_collect', 'self.rng')]
    ctx.check('C04.init.no_reset', A, 'no-reset', not others, expected='m, h_bar, epsilon_bar are not touched by init_chain', found=', '.join(others) or 'none', sp=sp,
              why='the warm-up counter and the averaging state persist across run() calls')


def fre(ctx):
    A = 'find_reasonable_epsilon'
    b = ctx.helper('nuts.fre')
    if b is None:
        ctx.unknown('C04.fre', A, 'anchor', why='anchor not found')
        return
    ev = ctx.evaluate(b)
    sp = b['sp']
    ps = [p['pat']['name'] for p in b['params'] if p.get('pat', {}).get('k') == 'Binding']
    if len(ps) != 3:
        ctx.unknown('C04.fre', A, 'signature', why='expected (position, mom, target)', sp=sp)
        return
    pos, mom, gt = [S(x) for x in ps]
    UG = T.app(ULG, gt, pos)
    L, g = T.proj(UG, 0), T.proj(UG, 1)

    def leap(e):
        rh = T.add(mom, T.mul(T.mul(e, HALF), g))
        th1 = T.add(pos, T.mul(e, rh))
        U1 = T.app(ULG, gt, th1)
        r1 = T.add(rh, T.mul(T.mul(e, HALF), T.proj(U1, 1)))
        return r1, T.proj(U1, 0)

    def logacc(r1, L1):
        return T.sub(T.sub(L1, L), T.mul(HALF, T.sub(T.app('sum', T.powi(r1, 2)), T.app('sum', T.powi(mom, 2)))))
    loops = [ls for ls in ev.vf.loops if ls.kind == 'loop' and not ls.ctx]
    main = [ls for ls in loops if ls.lx and ev.ret_term in ls.lx.values()]
    if len(main) != 1:
        ctx.unknown('C04.fre.loop', A, 'loop', why='the returned step size is not the exit value of a single doubling/halving loop', sp=sp)
        return
    ls = main[0]
    ek = [k for k in ls.lh if ls.lx[k] is ev.ret_term][0]
    eh = ls.lh[ek]
    nxt = ls.next[ek]
    # direction a from the first trial
    pows = apps(nxt, 'pow')
    a = pows[0][2][1] if len(pows) == 1 and pows[0][2][0] is N(2) else None
    okdir = False
    if a is not None and a[0] == 'ite' and a[2] is T.ONE and a[3] is N(-1) and a[1][0] == 'cmp':
        # a = 2[logacc0 > ln(1/2)] - 1 ; logacc0 built from the values left by the first trial(s)
        la = [k for k in ls.lh if isinstance(ls.init[k], T.Tm) and a[1] is T.cmp('gt', ls.init[k], T.app('ln', HALF))]
        okdir = len(la) == 1
    ctx.check('C04.fre.dir', A, 'direction', okdir, expected='a = +1 if logacc(first trial) > ln(1/2) else -1', found=show(a) if a is not None else show(nxt), sp=ls.sp,
              why='Algorithm 4: double while the acceptance probability is above 1/2, halve while below')
    if not okdir:
        return
    lak = la[0]
    ctx.eq('C04.fre.step', A, 'eps-update', nxt, T.mul(eh, T.app('pow', N(2), a)), sp=ls.sp, why='eps := 2^a eps')
    r1, L1 = leap(nxt)
    ctx.eq('C04.fre.logacc', A, 'logacc', ls.next[lak], logacc(r1, L1), sp=ls.sp,
           why='logacc = L\' - L - (r\'.r\' - r.r)/2 for one leapfrog of size eps from the SAME start point (theta, r, grad) on every trial')
    ex = [e for e in ls.exits if e[0] == 'break']
    cont = T.cmp('gt', T.mul(a, ls.lh[lak]), T.mul(T.neg(a), T.app('ln', N(2))))
    ctx.check('C04.fre.loop', A, 'loop', len(ls.exits) == 1 and len(ex) == 1 and ex[0][2] is T.lnot(cont), expected='while a*logacc > -a*ln 2', found='; '.join(show(e[2])[:200] for e in ls.exits), sp=ls.sp,
              why='stop when the acceptance probability crosses 1/2')
    # the first-trial logacc has the same form (on whatever eps the non-finite guard left)
    init_la = ls.init[lak]
    firsts = [l2 for l2 in loops if l2 is not ls]
    ok0 = False
    if len(firsts) == 1:
        f = firsts[0]
        rk = [k for k in f.lx if contains(init_la, f.lx[k])]
        mk_ = [f.lx[k] for k in f.lx if contains(init_la, T.app('sum', T.powi(f.lx[k], 2)))]
        uk = [f.lx[k] for k in f.lx if f.lx[k] not in mk_ and contains(init_la, f.lx[k])]
        if len(mk_) == 1 and len(uk) == 1:
            ok0 = init_la is logacc(mk_[0], uk[0])
    else:
        r0, L0 = leap(ls.init[ek])
        ok0 = init_la is logacc(r0, L0)
    ctx.check('C04.fre.logacc0', A, 'logacc0', ok0, expected='first-trial logacc = L\' - L - (r\'.r\' - r.r)/2', found=show(init_la)[:300], sp=sp, why='same acceptance statistic before the loop')
    # the non-finite guard (if present): halve a scale k from 1 and retry the SAME start point with eps*k until the trial is finite;
    # the main loop then starts from k_exit/2.  A guard that grows the step (k/half, eps/k) never leaves the non-finite region: a hang.
    if len(firsts) == 1:
        f = firsts[0]
        ks = [k for k in f.lh if f.init[k] is T.ONE and isinstance(f.next[k], T.Tm)]
        if len(ks) != 1:
            ctx.unknown('C04.fre.guard.halve', A, 'guard-scale', why='scale variable of the non-finite guard not recognised', sp=f.sp)
        else:
            kk = ks[0]
            kn = f.next[kk]
            ctx.eq('C04.fre.guard.halve', A, 'guard-scale', kn, T.mul(f.lh[kk], HALF), sp=f.sp,
                   why='each retry halves the trial step (k := k/2): the guard must move towards the region where the trial is finite, otherwise it never terminates')
            r1g, L1g = leap(kn)        # eps starts at 1, so the trial step is k
            trial_ok = any(f.next[k] is L1g for k in f.lh if isinstance(f.next[k], T.Tm)) and any(f.next[k] is r1g for k in f.lh if isinstance(f.next[k], T.Tm))
            ctx.check('C04.fre.guard.trial', A, 'guard-trial', trial_ok, expected='retry = one leapfrog of size k (eps = 1) from the SAME start point (theta, r, grad); its momentum and log-density are what the finiteness test reads next',
                      found='; '.join('%s := %s' % (keyrepr(k), show(f.next[k])[:120]) for k in f.lh if isinstance(f.next[k], T.Tm)), sp=f.sp,
                      why='a retry whose step does not shrink with k (eps/k, a stale start point) cannot become finite')
            ctx.eq('C04.fre.guard.start', A, 'main-loop-start', ls.init[ek], T.mul(HALF, f.lx[kk]), alts=[f.lx[kk]], sp=f.sp,
                   why='the doubling/halving search starts from the step the guard found finite (k_exit, or k_exit/2 as the reference tree does)')


def tail(ctx):
    A = 'NUTSChain::step (adaptation)'
    bstep, rec = locate(ctx)
    if bstep is None or not rec or len(rec) != 1:
        ctx.unknown('C04.step', A, 'anchor', why='NUTSChain::step / tree builder not located')
        return
    btkey = strip_generics(rec[0]['path'])
    ev = ctx.evaluate(bstep, no_inline=(btkey,))
    sp = bstep['sp']
    m0, t0, hb0, eb0, e0 = selff('m'), selff('t_0'), selff('h_bar'), selff('epsilon_bar'), selff('epsilon')
    mu, gam, kap, dlt, nd = selff('mu'), selff('gamma'), selff('kappa'), selff('target_accept_p'), selff('n_discard')
    m1 = T.add(m0, T.ONE)
    ctx.eq('C04.step.m_inc', A, 'm', ev.final_term('self.m'), m1, sp=sp, why='the warm-up counter is incremented exactly once per transition (and never reset)')
    loops = [ls for ls in ev.vf.loops if ls.kind == 'loop' and not ls.ctx]
    keys = ctx.extra.get('c03_alpha_keys')
    hb = ev.final_term('self.h_bar')
    # (alpha, n_alpha): the exit values of the doubling loop used in h_bar
    lxs = [x for x in T.subterms(hb) if x[0] == 'sym' and x[1].startswith('lx')]
    cand = None
    for al in lxs:
        for na in lxs:
            eta = T.div(T.ONE, T.add(m1, t0))
            exp = T.add(T.mul(T.sub(T.ONE, eta), hb0), T.mul(eta, T.sub(dlt, T.div(al, na))))
            if exp is hb:
                cand = (al, na)
    ctx.check('C04.step.hbar', A, 'h_bar', cand is not None, expected='h_bar := (1 - eta) h_bar + eta (delta - alpha/n_alpha), eta = 1/(m + t0) with the incremented m', found=show(hb), sp=sp,
              why='dual-averaging statistic driven by each transition\'s acceptance statistic')
    if cand is None:
        return
    # alpha / n_alpha must be the exit values of the doubling loop's last-result variables
    if loops:
        ls = loops[0]
        ok_al = any(ls.lx[k] is cand[0] for k in ls.lx) and any(ls.lx[k] is cand[1] for k in ls.lx)      # (initial values are dead: the first doubling always runs)
        ctx.check('C04.step.alpha_src', A, 'alpha-source', ok_al, expected='alpha, n_alpha are the doubling loop\'s variables after the loop', found='%s / %s' % (show(cand[0]), show(cand[1])), sp=sp,
                  why='statistic of the last doubling')
    guard = T.icmp('le', m1, nd)
    eps_w = T.app('exp', T.sub(mu, T.mul(T.div(T.app('sqrt', m1), gam), hb)))
    eta2 = T.app('pow', m1, T.neg(kap))
    ebar_w = T.app('exp', T.add(T.mul(T.sub(T.ONE, eta2), T.app('ln', eb0)), T.mul(eta2, T.app('ln', eps_w))))
    fe = ev.final_term('self.epsilon')
    feb = ev.final_term('self.epsilon_bar')
    gfound = fe[1] if fe[0] == 'ite' else None
    if gfound is not None and T.lnot(gfound) is guard:
        gfound = T.lnot(gfound)        # (ite normal forms keep the un-negated test and swap the arms)
    ctx.eq('C04.step.guard', A, 'guard', gfound if gfound is not None else fe, guard, sp=sp, why='adaptation runs exactly while m <= n_discard (m counted after the increment)')
    ctx.eq('C04.step.eps', A, 'epsilon', fe, T.ite(guard, eps_w, eb0), sp=sp,
           why='warm-up: eps = exp(mu - sqrt(m)/gamma h_bar); afterwards eps := eps_bar (the averaged iterate)')
    ctx.eq('C04.step.epsbar', A, 'epsilon_bar', feb, T.ite(guard, ebar_w, eb0), sp=sp,
           why='warm-up: eps_bar = exp((1 - m^-kappa) ln eps_bar + m^-kappa ln eps); afterwards unchanged')
    wr = [w for w in ev.written_ext() if w not in ('self.m', 'self.h_bar', 'self.epsilon', 'self.epsilon_bar', 'self.position', 'self.rng')]
    ctx.check('C04.step.others', A, 'other-writes', not wr, expected='mu, gamma, t_0, kappa, n_discard, target_accept_p untouched by step', found=', '.join(wr) or 'none', sp=sp, why='adaptation constants are fixed')


def writers(ctx, adt, field):
    """crate-wide writers of adt.field: [(fn path, how)] from THIR Assign/AssignOp and struct literals"""
    out = []
    for b in ctx.facts.bodies:
        if not ctx.facts.is_hand_written(b):
            continue
        root = ctx.facts.closure_root(b) or b

        def f(n, root=root):
            k = n.get('k')
            if k in ('Assign', 'AssignOp'):
                l = n['l']
                if l.get('k') == 'Field' and l.get('name') == field and l.get('adt') == adt:
                    out.append((strip_generics(root['path']), k))
            if k == 'Adt' and strip_generics(n.get('adt', '')) == adt:
                if any(fl['name'] == field for fl in n['fields']):
                    out.append((strip_generics(root['path']), 'ctor'))
            if k == 'Borrow' and n.get('mut') and n['e'].get('k') == 'Field' and n['e'].get('name') == field and n['e'].get('adt') == adt:
                out.append((strip_generics(root['path']), '&mut'))
        walk(b.get('thir'), f)
    return sorted(set(out))


def writeset(ctx):
    from .. import frame
    A = 'crate (write set of nuts::NUTSChain adaptation fields)'
    NEW, STEP, RUN, RP = 'nuts::NUTSChain::new', 'nuts::NUTSChain::step', 'nuts::NUTSChain::run', 'nuts::NUTS::run_progress'
    INIT = {RUN, RP}      # the (private) warm-up initialisation is reached from NUTSChain::run and NUTS::run_progress; private helpers stand for their entry points
    exp = {
        'epsilon': {NEW, STEP} | INIT, 'epsilon_bar': {NEW, STEP}, 'm': {NEW, STEP}, 'n_discard': {NEW} | INIT, 'h_bar': {NEW, STEP}, 'mu': {NEW} | INIT,
        'gamma': {NEW}, 't_0': {NEW}, 'kappa': {NEW},
    }
    st = ctx.facts.structs.get(CH)
    vis = {f['name']: f['vis'] for f in st['fields']} if st else {}
    w = frame.field_writers(ctx.facts, CH)
    for f, e in exp.items():
        got = w.get(f, set()) | w.get('*', set())
        extra = sorted(x for x in got if x[0] not in e and not frame.rebuild_keeps(ctx, x, f, got))      # (entry paths are canonical: no generic argument lists)
        private = 'Restricted' in vis.get(f, '')
        ctx.check('C04.freeze.writers', A, f, not extra and private, expected='written only by %s (private helpers count for the entry points that reach them); field private' % sorted(e),
                  found='%s; visibility %s' % (sorted(got) if not extra else 'also written by %s' % extra, vis.get(f)), sp=None,
                  why='freeze: with the guarded forms of step/init_chain checked above, no other code can change the step size, its average, the warm-up counter or the warm-up length; '
                      'hence once m > n_discard, eps = eps_bar and neither changes within a run')
