"""C03 — NUTS transition = Hoffman & Gelman Algorithm 6 (DESIGN.md section 4/C03, Appendix A.C03)."""
from ..speclib import *
from .. import effects as E

TITLE = 'NUTS transition is Algorithm 6: leapfrog, base case (slice, divergence bound 1000, alpha), recursive doubling with uniform selection, U-turn test, top-level accept'
EXPLANATION = ('Value-flow normal forms of NUTSChain::step (doubling loop summary), of the unique self-recursive tree builder reachable from it (base case and '
               'recursion with the recursive calls kept as symbolic 13-tuples: producer/consumer role agreement at all 5 call sites), of the leapfrog integrator and '
               'of the U-turn criterion, compared line by line with Algorithm 6 of Hoffman & Gelman (2014) plus the property\'s divergence bound 1000 and the '
               'acceptance statistic (sum of min(1, exp(joint - joint0)) and count over the last doubling). Polymorphic bodies: all T, B, targets, step sizes, depths. '
               'Uniformity of the selected state (a probabilistic consequence of the weights) and numerical trajectories are not decided.')
TECHNIQUE = 'value-flow normal form + loop summary + recursion summary (symbolic result tuples) vs specification table'
ULG = 'distributions::GradientTarget::unnorm_logp_and_grad'
HALF = T.div(T.ONE, N(2))
BTK = 'nuts::build_tree'
ROLES = ['theta-', 'r-', 'g-', 'theta+', 'r+', 'g+', "theta'", "g'", "L'", "n'", "s'", "alpha'", "n_alpha'"]


def uturn(pm, pp, mm, mp):
    diff = T.sub(pp, pm)
    return T.land(T.cmp('ge', T.app('sum', T.mul(diff, mm)), T.ZERO), T.cmp('ge', T.app('sum', T.mul(diff, mp)), T.ZERO))


def locate(ctx):
    """the step anchor and the unique self-recursive local function reachable from it"""
    bstep = ctx.anchor('NUTSChain::step', name='step', self_head='nuts::NUTSChain', container='inherent')
    if bstep is None:
        return None, None
    # self-recursive functions called (transitively) from step
    seen, stack, rec = set(), [bstep], []
    while stack:
        b = stack.pop()
        if b['did'] in seen:
            continue
        seen.add(b['did'])
        callees = []

        def f(n, b=b):
            if n.get('k') == 'Call' and n.get('fn'):
                fn = n['fn']
                tgt = fn['did'] if fn.get('local') and fn.get('container') != 'trait' else fn.get('resolved_did') if fn.get('resolved_local') else None
                if tgt:
                    callees.append(tgt)
        walk(b.get('thir'), f)
        for c in ctx.facts.children.get(b['did'], []):
            if c['def_kind'] == 'Closure':
                walk(c.get('thir'), f)
        if b['did'] in callees:
            rec.append(b)
        for c in callees:
            cb = ctx.facts.body(c)
            if cb is not None:
                stack.append(cb)
    return bstep, rec


def frame_rules(ctx):
    from .. import frame
    STEP, NEW, RUN, RP, SEED, SSEED = 'nuts::NUTSChain::step', 'nuts::NUTSChain::new', 'nuts::NUTSChain::run', 'nuts::NUTS::run_progress', 'nuts::NUTSChain::set_seed', 'nuts::NUTS::set_seed'
    init = {NEW, RUN, RP}           # init_chain (private) is reached from NUTSChain::run and NUTS::run_progress
    tab = {f: {NEW} for f in ('target', 'target_accept_p', 'gamma', 't_0', 'kappa', 'phantom_data')}
    tab.update({'position': {NEW, STEP}, 'epsilon': init | {STEP}, 'epsilon_bar': {NEW, STEP}, 'h_bar': {NEW, STEP}, 'm': {NEW, STEP},
                'mu': init, 'n_collect': init, 'n_discard': init, 'rng': init | {STEP, SEED, SSEED}})
    frame.check_frame(ctx, 'C03', 'nuts::NUTSChain', tab,
                      why='position, generator and adaptation state change only through the anchored step, the warm-up initialisation reached from run / run_progress, and the seeding API')
    frame.check_frame(ctx, 'C03', 'nuts::NUTS', {'chains': {'nuts::NUTS::new', 'nuts::NUTS::run', RP, SSEED}},
                      why='the runner only steps and re-seeds its chains')
    frame.shadowing(ctx, 'C03', ['nuts::NUTSChain', 'nuts::NUTS'])
    frame.no_override(ctx, 'C03', 'distributions::GradientTarget', 'unnorm_logp_and_grad',
                      why='the leapfrog reads value and gradient through this provided method and the obligations below take the second component to be the gradient of the first; '
                          'an implementor that overrides it can hand NUTS a vector field that is not the gradient of the density used in the slice / divergence / acceptance tests')


def run(ctx):
    frame_rules(ctx)
    bstep, rec = locate(ctx)
    if bstep is None or len(rec) != 1:
        ctx.unknown('C03.anchor', 'NUTSChain::step', 'anchor', why='need NUTSChain::step and exactly one self-recursive tree builder reachable from it (found %s)' % (None if rec is None else len(rec)))
        return
    bt = rec[0]
    btkey = strip_generics(bt['path'])
    ns = narrowing_sites(ctx, [bstep, bt] + [c for c in ctx.local_callees(bt) if c is not bt])
    ctx.check('C03.no_narrowing', 'NUTSChain::step', 'precision', not ns, expected='no conversion to a fixed narrower float type on the trajectory path',
              found='; '.join('%s: %s at %s' % x for x in ns) or 'none', sp=bstep['sp'],
              why='the trajectory must be the leapfrog trajectory of the current step size in the precision of the back end')
    tree(ctx, bt, btkey)
    top(ctx, bstep, bt, btkey)


def tree(ctx, bt, btkey):
    A = 'build_tree (recursive helper of NUTSChain::step)'
    ev = ctx.evaluate(bt)
    sp = bt['sp']
    ps = [p['pat']['name'] for p in bt['params'] if p.get('pat', {}).get('k') == 'Binding']
    if len(ps) != 10:
        ctx.unknown('C03.tree', A, 'signature', why='expected 10 parameters (theta, r, g, logu, v, j, eps, target, joint0, rng), found %d' % len(ps), sp=sp)
        return
    th, r, g, logu, v, j, eps, tg, j0, rng = [S(x) for x in ps]
    ret = ev.ret_term
    if ret[0] != 'ite' or ret[1] is not T.cmp('eq', j, T.ZERO) or ret[2][0] != 'tuple' or ret[3][0] != 'tuple' or len(ret[2][1]) != 13 or len(ret[3][1]) != 13:
        ctx.unknown('C03.tree', A, 'shape', why='expected `if j == 0 {13-tuple} else {13-tuple}`', found=show(ret)[:300], sp=sp)
        return
    base, recu = ret[2][1], ret[3][1]
    # ---------------- base case: one leapfrog with step v*eps
    e_ = T.mul(v, eps)
    rh = T.add(r, T.mul(T.mul(e_, HALF), g))
    th1 = T.add(th, T.mul(e_, rh))
    UG = T.app(ULG, tg, th1)
    L1, g1 = T.proj(UG, 0), T.proj(UG, 1)
    r1 = T.add(rh, T.mul(T.mul(e_, HALF), g1))
    joint = T.sub(L1, T.mul(HALF, T.app('sum', T.powi(r1, 2))))
    name_terms(**{"theta1": th1, "r1": r1, "joint": joint})
    why_lf = 'leapfrog: r_half = r + (eps/2) g; theta\' = theta + eps r_half; (L\', g\') at theta\'; r\' = r_half + (eps/2) g\'  (step v*eps)'
    ctx.eq('C03.lf.pos', A, 'base.theta\'', base[6], th1, why=why_lf, sp=sp)
    ctx.eq('C03.lf.mom', A, 'base.r\'', base[1], r1, why=why_lf, sp=sp)
    ctx.eq('C03.lf.grad_at_new', A, 'base.g\'', base[7], g1, why='gradient evaluated at the NEW position', sp=sp)
    ctx.eq('C03.b.cand', A, 'base.candidate', T.tup(base[6], base[7], base[8]), T.tup(th1, g1, L1), why='candidate triple (theta\', g\', L\') comes from the same leapfrog evaluation', sp=sp)
    ctx.eq('C03.b.edges', A, 'base.edges', T.tup(*base[0:6]), T.tup(th1, r1, g1, th1, r1, g1), why='both edges of a single-node tree are the new point (theta\', r\', g\')', sp=sp)
    n_strict = T.ite(T.cmp('lt', logu, joint), T.ONE, T.ZERO)
    n_le = T.ite(T.cmp('le', logu, joint), T.ONE, T.ZERO)
    ctx.eq('C03.b.n', A, 'base.n\'', base[9], n_strict, alts=[n_le], sp=sp,
           why='n\' = [log u < L\' - r\'.r\'/2]: the point counts iff it is slice-admissible (false for NaN joint)')
    ctx.eq('C03.b.s', A, 'base.s\'', base[10], T.cmp('lt', T.sub(logu, N(1000)), joint), sp=sp,
           why='s\' = [log u - 1000 < joint]: the trajectory is divergent when the energy error exceeds 1000 (false for NaN joint)')
    ctx.eq('C03.b.alpha', A, 'base.alpha\'', base[11], T.app('min', *sorted([T.ONE, T.app('exp', T.sub(joint, j0))], key=T.key)), sp=sp,
           why='alpha\' = min(1, exp(joint - joint0)): acceptance statistic of the new point')
    ctx.eq('C03.b.nalpha', A, 'base.n_alpha\'', base[12], T.ONE, why='one point', sp=sp)
    # ---------------- recursion
    recs = ev.vf.rec_calls
    if len(recs) not in (2, 3):
        ctx.unknown('C03.r', A, 'recursion', why='expected the first subtree call and the second subtree call (one site, or one per direction); found %d recursive call sites' % len(recs), sp=sp)
        return
    R1 = recs[0][2]
    ctx.eq('C03.r.first', A, 'rec.first', T.tup(*recs[0][1]), T.tup(th, r, g, logu, v, T.sub(j, T.ONE), eps, tg, j0, rng), sp=recs[0][4],
           why='first subtree: from the incoming (theta, r, g) at depth j-1 with the same log u, v, eps, target, joint0, generator')
    s1 = T.proj(R1, 10)
    Vm = T.cmp('eq', v, N(-1))
    rng1 = T.app('post9', R1)

    def args2(a, b, c):
        return T.tup(T.proj(R1, a), T.proj(R1, b), T.proj(R1, c), logu, v, T.sub(j, T.ONE), eps, tg, j0, rng1)
    NZ = T.lnot(T.cmp('eq', j, T.ZERO))
    if len(recs) == 3:
        # one call site per direction
        by_args = {T.tup(*rc[1]): rc for rc in recs[1:]}
        Rm_rc, Rp_rc = by_args.get(args2(0, 1, 2)), by_args.get(args2(3, 4, 5))
        okstart = Rm_rc is not None and Rp_rc is not None
        okguard = okstart and tuple(Rm_rc[3]) == (NZ, s1, Vm) and tuple(Rp_rc[3]) == (NZ, s1, T.lnot(Vm))
        foundg = 'minus-call under [%s]; plus-call under [%s]' % (' & '.join(show(c) for c in Rm_rc[3]), ' & '.join(show(c) for c in Rp_rc[3])) if okstart else ''
    else:
        # one call site whose start state is selected by the direction first
        rc = recs[1]
        edge = T.tup(T.ite(Vm, T.proj(R1, 0), T.proj(R1, 3)), T.ite(Vm, T.proj(R1, 1), T.proj(R1, 4)), T.ite(Vm, T.proj(R1, 2), T.proj(R1, 5)), logu, v, T.sub(j, T.ONE), eps, tg, j0, rng1)
        okstart = T.tup(*rc[1]) is edge
        Rm_rc = Rp_rc = rc
        okguard = okstart and tuple(rc[3]) == (NZ, s1)
        foundg = 'call under [%s]' % ' & '.join(show(c) for c in rc[3])
    ctx.check('C03.r.second_args', A, 'rec.second-args', okstart, expected='second subtree starts from the minus edge (roles 0,1,2 of the first result) if v = -1, else from the plus edge (roles 3,4,5), same log u, v, j-1, eps, target, joint0, generator after the first call',
              found='; '.join(show(T.tup(*rc[1]))[:200] for rc in recs[1:]), sp=sp, why='the second half of the doubling continues the trajectory from the outer edge of the first half')
    if not okstart:
        return
    Rm, Rp = Rm_rc[2], Rp_rc[2]
    name_terms(T1=R1, T2minus=Rm, T2plus=Rp)
    ctx.check('C03.r.guard', A, 'rec.guard', okguard, expected='second subtree built iff s\' of the first; from the minus edge iff v = -1, else from the plus edge',
              found=foundg, sp=sp,
              why='a stopped first half ends the doubling (never draw from a subtree that stopped); direction decides the side')

    def R2(k):
        return T.ite(Vm, T.proj(Rm, k), T.proj(Rp, k))

    def branch(x):
        return T.ite(s1, x[0], x[1])
    exp = {}
    for k in (0, 1, 2):
        exp[k] = T.ite(s1, T.ite(Vm, T.proj(Rm, k), T.proj(R1, k)), T.proj(R1, k))
    for k in (3, 4, 5):
        exp[k] = T.ite(s1, T.ite(Vm, T.proj(R1, k), T.proj(Rp, k)), T.proj(R1, k))
    ctx.eq('C03.r.edge_update', A, 'rec.edges', T.tup(*recu[0:6]), T.tup(*[exp[k] for k in range(6)]), sp=sp,
           why='only the edge on side v is replaced, by the matching roles (0,1,2 / 3,4,5) of the second subtree')
    rng2 = T.ite(Vm, T.app('post9', Rm), T.app('post9', Rp))
    U = T.app('rng_random<f64>', rng2)
    n1, n2 = T.proj(R1, 9), R2(9)
    thr = T.div(n2, T.app('max', *sorted([T.ONE, T.add(n1, n2)], key=T.key)))
    sel = T.cmp('lt', U, thr)
    name_terms(U_sel=U)
    cand = [T.ite(s1, T.ite(sel, R2(k), T.proj(R1, k)), T.proj(R1, k)) for k in (6, 7, 8)]
    f6 = recu[6]
    g6 = guarded_by(f6, s1)
    found_sel = g6[0] if g6 is not None and g6[0] is not T.TRUE else None
    ctx.eq('C03.r.select_prob', A, 'rec.select', found_sel if found_sel is not None else f6, sel, sp=sp,
           why='the new subtree\'s candidate replaces the old one with probability n\'\'/max(n\'+n\'\',1): uniform selection among admissible points; U a fresh uniform from the chain generator after both subtrees')
    ctx.eq('C03.r.select_triple', A, 'rec.candidate', T.tup(recu[6], recu[7], recu[8]), T.tup(*cand), sp=sp,
           why='(theta\'\', g\'\', L\'\') move together under ONE selection draw, from roles 6,7,8 of the second subtree')
    ctx.eq('C03.r.n_sum', A, 'rec.n', recu[9], T.ite(s1, T.add(n1, n2), n1), why='n\' += n\'\'', sp=sp)
    pm, pp = T.ite(Vm, T.proj(Rm, 0), T.proj(R1, 0)), T.ite(Vm, T.proj(R1, 3), T.proj(Rp, 3))
    mm, mp = T.ite(Vm, T.proj(Rm, 1), T.proj(R1, 1)), T.ite(Vm, T.proj(R1, 4), T.proj(Rp, 4))
    ctx.eq('C03.r.s', A, 'rec.s', recu[10], T.ite(s1, T.land(s1, R2(10), uturn(pm, pp, mm, mp)), s1), alts=[T.ite(s1, T.land(R2(10), uturn(pm, pp, mm, mp)), s1)], sp=sp,
           why='s\' := s\' and s\'\' and no-U-turn(theta-, theta+, r-, r+) on the edges AFTER the update: (theta+ - theta-).r- >= 0 and (theta+ - theta-).r+ >= 0')
    ctx.eq('C03.r.alpha_sum', A, 'rec.alpha', recu[11], T.ite(s1, T.add(T.proj(R1, 11), R2(11)), T.proj(R1, 11)), why='alpha\' += alpha\'\'', sp=sp)
    ctx.eq('C03.r.nalpha_sum', A, 'rec.n_alpha', recu[12], T.ite(s1, T.add(T.proj(R1, 12), R2(12)), T.proj(R1, 12)), why='n_alpha\' += n_alpha\'\'', sp=sp)


def top(ctx, bstep, bt, btkey):
    A = 'NUTSChain::step'
    ev = ctx.evaluate(bstep, no_inline=(btkey,))
    sp = bstep['sp']
    pos0, tgt, rng0, eps = selff('position'), selff('target'), selff('rng'), selff('epsilon')
    dim = index_term(T.app('dims', pos0), N(0))
    draws = [s for s in E.rng_sites(ev) if s.kind == 'draw']
    normals = [s for s in draws if s.draw_kind == 'sample_iter' and not s.loops]
    loops = [ls for ls in ev.vf.loops if ls.kind == 'loop' and not ls.ctx]
    if len(normals) != 1 or len(loops) != 1:
        ctx.unknown('C03.t', A, 'shape', why='expected one momentum draw and one doubling loop (found %d, %d)' % (len(normals), len(loops)), sp=sp)
        return
    D0 = normals[0].res
    k = S('k#a')
    mom0 = mk_comp(dim, k, T.app('nth', D0, k))
    ctx.check('C03.t.mom', A, 'momentum', normals[0].gen_root == 'self.rng' and 'StandardNormal' in normals[0].dist() and D0[2][0] is rng0, expected='r0 ~ StandardNormal^dim from the chain generator',
              found='%s from %s' % (normals[0].dist(), normals[0].gen_root), sp=normals[0].sp, why='momentum resampling')
    UG = T.app(ULG, tgt, pos0)
    joint = T.sub(T.proj(UG, 0), T.mul(HALF, T.app('sum', T.powi(mom0, 2))))
    exps = [s for s in draws if s.draw_kind == 'rng_sample' and 'Exp1' in s.dist() and not s.loops]
    if len(exps) != 1:
        ctx.bad('C03.t.logu', A, 'slice', expected='one Exp1 draw', found=str(len(exps)), sp=sp, why='log u = joint - Exp(1)')
        return
    Ex = exps[0].res
    logu = T.sub(joint, Ex)
    name_terms(r0=mom0, joint0=joint, logu=logu)
    ls = loops[0]
    K = {keyrepr(k_): k_ for k_ in ls.lh}
    need = ['position_minus', 'position_plus', 'mom_minus', 'mom_plus', 'grad_minus', 'grad_plus', 'self.position', 'self.rng']
    # locals may be renamed: identify by initial values and roles
    byinit = {}
    for k_ in ls.lh:
        byinit.setdefault(ls.init[k_], []).append(k_)
    if 'self.position' not in K or 'self.rng' not in K:
        ctx.unknown('C03.t', A, 'loop', why='position / generator are not carried through the doubling loop', sp=ls.sp)
        return
    posk, rngk = K['self.position'], K['self.rng']
    bts = [e for e in ev.vf.events if e.key == btkey and e in ls.events]
    if len(bts) not in (1, 2):
        ctx.unknown('C03.t.calls', A, 'calls', why='expected one tree-builder call per direction in the doubling loop, or one call from the edge selected by the direction (found %d)' % len(bts), sp=ls.sp)
        return
    single = len(bts) == 1
    U1s = [s for s in draws if s.draw_kind == 'rng_random' and s.e in ls.events and s.gen is ls.lh[rngk]]
    if len(U1s) != 1:
        ctx.unknown('C03.t.dir', A, 'direction', why='direction draw not identified', sp=ls.sp)
        return
    U1 = U1s[0].res
    v = T.sub(T.mul(N(2), T.ite(T.cmp('lt', U1, HALF), T.ONE, T.ZERO)), T.ONE)
    Vm = T.cmp('eq', v, N(-1))
    rng1 = T.app('post0', U1)
    # the six edge variables: carried places whose init is pos0 / mom0 / grad0 and which appear as the first three args of the calls
    flags = [ls.lh[k_] for k_ in ls.lh if ls.init[k_] is T.TRUE]     # the while-condition is part of every path condition

    def pc_of(e):
        return tuple(c for c in e.pc if c not in flags)
    lhs = {v_: k_ for k_, v_ in ls.lh.items()}
    if single:
        # one call whose start state is `if v == -1 { minus edge } else { plus edge }`
        c1 = bts[0]
        # (the selector may be stored under either polarity: ite(not c, A, B) is ite(c, B, A))
        sel3 = [(a[2], a[3]) if a[1] is Vm else (a[3], a[2]) for a in c1.args[0:3] if a[0] == 'ite' and (a[1] is Vm or T.lnot(a[1]) is Vm)]
        okdir = pc_of(c1) == () and len(sel3) == 3
        ctx.check('C03.t.dir', A, 'direction', okdir, expected='v = 2[U < 1/2] - 1 in {-1,+1}; the call starts from the minus edge iff v == -1, else from the plus edge',
                  found='[%s] %s' % (' & '.join(show(c) for c in c1.pc), '; '.join(show(a)[:80] for a in c1.args[0:3])), sp=ls.sp, why='direction chosen uniformly; doubling goes backwards iff v = -1')
        if not okdir:
            return
        cm = cp = c1
        edges_m = [lhs.get(a[0]) for a in sel3]
        edges_p = [lhs.get(a[1]) for a in sel3]
    else:
        callm = [e for e in bts if pc_of(e) == (Vm,)]
        callp = [e for e in bts if pc_of(e) == (T.lnot(Vm),)]
        ctx.check('C03.t.dir', A, 'direction', len(callm) == 1 and len(callp) == 1, expected='v = 2[U < 1/2] - 1 in {-1,+1}; one call under v == -1, the other under v != -1',
                  found='; '.join('[%s]' % ' & '.join(show(c) for c in e.pc) for e in bts), sp=ls.sp, why='direction chosen uniformly; doubling goes backwards iff v = -1')
        if len(callm) != 1 or len(callp) != 1:
            return
        cm, cp = callm[0], callp[0]
        edges_m = [lhs.get(a) for a in cm.args[0:3]]
        edges_p = [lhs.get(a) for a in cp.args[0:3]]
    if None in edges_m or None in edges_p or len(set(edges_m + edges_p)) != 6:
        ctx.bad('C03.t.call_args', A, 'call-edges', expected='each call starts from the three loop-carried edge variables of its side', found='%s / %s' % ([show(a) for a in cm.args[0:3]], [show(a) for a in cp.args[0:3]]), sp=ls.sp,
                why='doubling continues from the outer edge on side v')
        return
    pm, mm, gm = edges_m
    pp, mp, gp = edges_p
    grad0 = T.proj(UG, 1)
    ctx.eq('C03.t.init', A, 'init', T.tup(*[ls.init[x] for x in (pm, mm, gm, pp, mp, gp)]), T.tup(pos0, mom0, grad0, pos0, mom0, grad0), sp=sp,
           why='both edges start at the current (theta, r0, grad)')
    common = lambda ed: T.tup(ls.lh[ed[0]], ls.lh[ed[1]], ls.lh[ed[2]])
    jk = [k_ for k_ in ls.lh if cm.args[5] is ls.lh[k_]]
    if single:
        exp_args = lambda ed: T.tup(*([T.ite(Vm, ls.lh[a_], ls.lh[b_]) for a_, b_ in zip(edges_m, edges_p)] + [logu, v, ls.lh[jk[0]] if jk else S('?j'), eps, tgt, joint, rng1]))
    else:
        exp_args = lambda ed: T.tup(ls.lh[ed[0]], ls.lh[ed[1]], ls.lh[ed[2]], logu, v, ls.lh[jk[0]] if jk else S('?j'), eps, tgt, joint, rng1)
    ctx.eq('C03.t.call_minus', A, 'call(v=-1)', T.tup(*cm.args), exp_args(edges_m), sp=cm.sp, why='build_tree(theta-, r-, g-, log u, v, j, self.epsilon, target, joint0, generator)')
    ctx.eq('C03.t.call_plus', A, 'call(v=+1)', T.tup(*cp.args), exp_args(edges_p), sp=cp.sp, why='build_tree(theta+, r+, g+, log u, v, j, self.epsilon, target, joint0, generator)')
    ctx.eq('C03.t.logu', A, 'slice', cm.args[3], logu, sp=sp, why='log u = joint0 - Exp(1) with joint0 = logp(theta) - r0.r0/2 (one Exp1 draw from the chain generator, after the momentum)')
    ctx.check('C03.t.logu.gen', A, 'slice-gen', exps[0].gen_root == 'self.rng', expected='Exp1 from self.rng', found=str(exps[0].gen_root), sp=exps[0].sp, why='slice variable from the chain generator')
    Bm, Bp = cm.res, cp.res
    name_terms(Tm=Bm, Tp=Bp, U_dir=U1)
    ctx.eq('C03.t.edge_update', A, 'edges', T.tup(*[ls.next[x] for x in (pm, mm, gm, pp, mp, gp)]),
           T.tup(T.ite(Vm, T.proj(Bm, 0), ls.lh[pm]), T.ite(Vm, T.proj(Bm, 1), ls.lh[mm]), T.ite(Vm, T.proj(Bm, 2), ls.lh[gm]),
                 T.ite(Vm, ls.lh[pp], T.proj(Bp, 3)), T.ite(Vm, ls.lh[mp], T.proj(Bp, 4)), T.ite(Vm, ls.lh[gp], T.proj(Bp, 5))), sp=ls.sp,
           why='only the edge of side v is replaced, from the matching roles of the result')
    pos1 = T.ite(Vm, T.proj(Bm, 6), T.proj(Bp, 6))
    n1 = T.ite(Vm, T.proj(Bm, 9), T.proj(Bp, 9))
    s1 = T.ite(Vm, T.proj(Bm, 10), T.proj(Bp, 10))
    rng2 = T.ite(Vm, T.app('post9', Bm), T.app('post9', Bp))
    U2 = T.app(U1[1], rng2)
    nk = [k_ for k_ in ls.lh if ls.init[k_] is T.ONE and isinstance(ls.next[k_], T.Tm) and ls.next[k_] is T.add(ls.lh[k_], n1)]
    if len(nk) != 1:
        ctx.bad('C03.t.n_sum', A, 'n', expected='n starts at 1 and n += n\'', found='no such carried variable', sp=ls.sp, why='number of admissible points so far')
        return
    ctx.ok('C03.t.n_sum', A, 'n', expected='n0 = 1; n += n\'', found=show(ls.next[nk[0]]), sp=ls.sp, why='number of admissible points so far')
    nn = ls.lh[nk[0]]
    acc = T.land(s1, T.cmp('lt', U2, T.app('min', *sorted([T.ONE, T.div(n1, nn)], key=T.key))))
    ctx.eq('C03.t.accept', A, 'accept', ls.next[posk], T.ite(acc, pos1, ls.lh[posk]), sp=ls.sp,
           why='theta := theta\' only under s\' and U2 < min(1, n\'/n) (U2 a fresh uniform after the tree): never from a subtree that stopped; this is the only store of the position')
    ctx.eq('C03.t.rng', A, 'generator', ls.next[rngk], T.app('post0', U2), why='generator threaded through direction draw, tree and acceptance draw', sp=ls.sp)
    try:
        fin_pos = ev.final_term('self.position')
    except Exception:
        fin_pos = None
    ctx.check('C03.t.final', A, 'final-position', fin_pos is ls.lx.get(posk), expected='the position after the step is the one the doubling loop leaves, on every path', found=show(fin_pos)[:200] if fin_pos is not None else '?', sp=sp,
              why='a path around the loop (guard clause) or a later store of the position is a different transition for the inputs that take it')
    sk = [k_ for k_ in ls.lh if ls.init[k_] is T.TRUE]
    pmn, ppn, mmn, mpn = [ls.next[x] for x in (pm, pp, mm, mp)]
    cont = T.land(s1, uturn(pmn, ppn, mmn, mpn))
    if len(sk) == 0 and len(ls.exits) == 1 and ls.exits[0][0] == 'break':
        # bottom-tested spelling: loop { doubling; if !(s' && no-U-turn) { break } } -- the first doubling always runs, as with a flag
        # initialised true
        ctx.eq('C03.t.s', A, 's', ls.exits[0][2], T.lnot(cont), sp=ls.sp, why='doubling continues iff s\' and no-U-turn on the updated edges')
        ctx.ok('C03.t.loop', A, 'loop', expected='loop { … if !continue { break } } with no other exit', found=show(ls.exits[0][2])[:200], sp=ls.sp,
               why='the trajectory is doubled until a U-turn or a divergence occurs')
    elif len(sk) != 1:
        ctx.bad('C03.t.s', A, 's', expected='loop flag initialised true', found='%d candidates' % len(sk), sp=ls.sp, why='doubling continues while s')
    else:
        ctx.eq('C03.t.s', A, 's', ls.next[sk[0]], T.land(s1, uturn(pmn, ppn, mmn, mpn)), sp=ls.sp, why='s := s\' and no-U-turn on the updated edges')
        exits = ls.exits
        ctx.check('C03.t.loop', A, 'loop', len(exits) == 1 and exits[0][0] == 'break' and exits[0][2] is T.lnot(ls.lh[sk[0]]), expected='while s { … } with no other exit',
                  found='; '.join(show(e[2]) for e in exits), sp=ls.sp, why='the trajectory is doubled until a U-turn or a divergence occurs')
    if jk:
        ctx.eq('C03.t.j', A, 'j', T.tup(ls.init[jk[0]], ls.next[jk[0]]), T.tup(T.ZERO, T.add(ls.lh[jk[0]], T.ONE)), why='depth starts at 0 and increases by one per doubling', sp=ls.sp)
    # alpha / n_alpha: those of the LAST build_tree call
    al = [k_ for k_ in ls.lh if ls.next[k_] is T.ite(Vm, T.proj(Bm, 11), T.proj(Bp, 11))]
    na = [k_ for k_ in ls.lh if ls.next[k_] is T.ite(Vm, T.proj(Bm, 12), T.proj(Bp, 12))]
    ctx.check('C03.t.alpha_last', A, 'alpha', len(al) == 1 and len(na) == 1, expected='(alpha, n_alpha) := roles 11, 12 of the current doubling\'s result (overwritten each doubling)',
              found='%d / %d matching carried variables' % (len(al), len(na)), sp=ls.sp, why='the acceptance statistic is the mean of min(1, exp(.)) over the LAST doubling')
    ctx.extra['c03_alpha_keys'] = [keyrepr(x) for x in al + na]
    ctx.extra['roles'] = ROLES
