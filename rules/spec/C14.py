"""C14 — no move to zero-density / NaN / non-finite states (DESIGN.md section 4/C14, Appendix A.C14)."""
from ..speclib import *
from .C03 import locate, ULG, BTK

TITLE = 'Accept side is the TRUE side of an ordered comparison whose left side carries the candidate\'s log-density positively (NaN / -inf => reject); select never blends'
EXPLANATION = ('POLARITY rule on every state-changing site: MH: the only store of the state is ite(C, candidate, old) with C an ordered comparison (>, >=: false on NaN) whose '
               'difference contains +log p(candidate); HMC: new positions = mask_where(old, mask, proposed) (selection, no arithmetic blend), mask = [dH - ln U >= 0] with '
               '+logp(proposed) inside; NUTS: n\' = [logu < joint] and s\' = [logu - 1000 < joint] with joint carrying +L\' (false on NaN), position written only under '
               's\' and U < min(1, n\'/n), candidate inside the tree replaced only under U < n\'\'/max(n\'+n\'\',1) (threshold proportional to n\'\'); negated forms (!(a <= b)), '
               'min/max based selection or partial_cmp().unwrap() on these sites are violations; float->float conversions on these paths checked by type. '
               'Numeric behaviour of burn kernels on NaN/inf (trusted table) and absence of hangs on adversarial targets are not decided.')
TECHNIQUE = 'polarity analysis of accept conditions over value-flow terms (ordered-comparison true edge, sign of the candidate density term), selection-only rule'


def coeff_sign(poly, atom_pred):
    """signs of coefficients of monomials that are exactly one atom matching atom_pred (power 1)"""
    out = []
    if poly[0] == 'poly':
        for m, c in poly[1]:
            if len(m) == 1 and m[0][1] == 1 and atom_pred(m[0][0]):
                out.append(1 if c[0] > 0 else -1)
    elif atom_pred(poly):
        out.append(1)
    return out


def ordered_true_edge(c):
    return c[0] == 'cmp' and c[1] in ('gt', 'ge')


def run(ctx):
    mh(ctx)
    hmc(ctx)
    nuts(ctx)
    conversions(ctx)
    progress(ctx)
    for nm, root, al in (('MHMarkovChain::step', ctx.anchor('mh', name='step', trait='core::MarkovChain', self_head='metropolis_hastings::MHMarkovChain'), {}),
                         ('HMC::step', ctx.anchor('hmc', name='step', self_head='hmc::HMC', container='inherent'), {}),
                         ('NUTSChain::step', ctx.anchor('nuts', name='step', self_head='nuts::NUTSChain', container='inherent'), {'numcast': 1})):
        if root is not None:
            narrowing_budget(ctx, 'C14', nm, [root], al, why='a narrowed log-density or energy can turn inf/NaN handling around (overflow to inf in f32, rounding to a boundary value); a conversion to a fixed narrower float type (or an f64 -> element-type read-back) on this path changes values for wider element types / back ends', sp=root['sp'])
    # no hang on non-finite trials: the step-size search's non-finite guard shrinks its trial step (shared with C04)
    from . import C04
    got = ctx.borrow(C04.fre, lambda oid: oid in ('C04.fre.guard.halve', 'C04.fre.guard.trial'))
    if len(got) < 2:
        ctx.unknown('C14.fre_guard', 'find_reasonable_epsilon', 'guard', why='guard obligations of the step-size heuristic could not be instantiated (%d of 2)' % len(got))
    # "every state-changing site": the polarity rule above covers the anchored transitions; the frame rules show these are the
    # ONLY code that can change a chain's state (besides constructors / the seeding API)
    from . import C01, C02, C03
    for mod in (C01, C02, C03):
        got = ctx.borrow(mod.frame_rules, lambda oid: True)
        if not got:
            ctx.unknown('C14.frame', mod.__name__.rsplit('.', 1)[-1], 'borrowed', why='frame obligations could not be instantiated')


def mh(ctx):
    A = '<MHMarkovChain as MarkovChain>::step'
    b = ctx.anchor(A, name='step', trait='core::MarkovChain', self_head='metropolis_hastings::MHMarkovChain')
    if b is None:
        ctx.unknown('C14.mh.polarity', A, 'anchor', why='anchor not found')
        return
    ev = ctx.evaluate(b)
    x0 = selff('current_state')
    fin = ev.final_term('self.current_state')
    samples = ev.events(lambda e: e.key == 'distributions::Proposal::sample')
    ys = [e.res for e in samples]
    ok = False
    found = show(fin)[:300]
    if fin[0] == 'ite' and fin[3] is x0 and fin[2] in ys and ordered_true_edge(fin[1]):
        y = fin[2]
        signs = coeff_sign(fin[1][2], lambda a: T.is_app(a, 'distributions::Target::unnorm_logp') and a[2][1] is y)
        ok = signs == [1]
    ctx.check('C14.mh.polarity', A, 'accept', ok, expected='state := ite([ … + log p(y) … > 0], y, x): accept on the TRUE edge of an ordered comparison carrying +log p(candidate)', found=found, sp=b['sp'],
              why='a NaN or -inf candidate density makes the comparison false, so the chain keeps x; a negated or reversed test would accept such candidates')


def hmc(ctx):
    A = 'HMC::step'
    b = ctx.anchor(A, name='step', self_head='hmc::HMC', container='inherent')
    if b is None:
        ctx.unknown('C14.hmc', A, 'anchor', why='anchor not found')
        return
    ev = ctx.evaluate(b)
    x0 = selff('positions')
    fin = ev.final_term('self.positions')
    sel = T.is_app(fin, 'mask_where') and len(fin[2]) == 3 and fin[2][0] is x0
    ctx.check('C14.hmc.select_only', A, 'select', sel, expected='positions := mask_where(old positions, mask, proposed): a selection, never an arithmetic blend', found=show(fin)[:200], sp=b['sp'],
              why='blending (e.g. mask*new + (1-mask)*old) turns a NaN proposal into NaN positions even when rejected')
    if not sel:
        ctx.unknown('C14.hmc.mask_polarity', A, 'mask', why='selection form not recognised', sp=b['sp'])
        return
    mask, new = fin[2][1], fin[2][2]
    inner = mask
    while T.is_app(inner) and inner[1] in ('expand', 'unsqueeze_dim', 'unsqueeze', 'reshape') and inner[2]:
        inner = inner[2][0]
    ok = False
    if ordered_true_edge(inner):
        signs = coeff_sign(inner[2], lambda a: T.is_app(a, 'distributions::BatchedGradientTarget::unnorm_logp_batch') and a[2][1] is new)
        ok = signs == [1]
    ctx.check('C14.hmc.mask_polarity', A, 'mask', ok, expected='mask = [ … + logp(proposed) … >= 0]: true (=> take the proposal) only on the true edge of an ordered comparison', found=show(inner)[:300], sp=b['sp'],
              why='NaN / -inf energy of the proposal makes the comparison false => the row keeps its old position')


def nuts(ctx):
    bstep, rec = locate(ctx)
    A = 'NUTSChain::step'
    if bstep is None or not rec or len(rec) != 1:
        ctx.unknown('C14.nuts', A, 'anchor', why='NUTSChain::step / tree builder not located')
        return
    bt = rec[0]
    btkey = strip_generics(bt['path'])
    AT = 'build_tree (recursive helper of NUTSChain::step)'
    ev = ctx.evaluate(bt)
    ret = ev.ret_term
    if ret[0] != 'ite' or ret[2][0] != 'tuple' or len(ret[2][1]) != 13 or ret[3][0] != 'tuple':
        ctx.unknown('C14.nuts.n_polarity', AT, 'shape', why='tree builder result shape not recognised', sp=bt['sp'])
        return
    base, recu = ret[2][1], ret[3][1]
    L1 = base[8]

    def carries_L(c):
        return ordered_true_edge(c) and coeff_sign(c[2], lambda a: a is L1) == [1]
    n_ = base[9]
    ctx.check('C14.nuts.n_polarity', AT, 'base.n\'', n_[0] == 'ite' and n_[2] is T.ONE and n_[3] is T.ZERO and carries_L(n_[1]), expected='n\' = [ … + L\' … > 0] as 0/1: counted only on the true edge', found=show(n_)[:200], sp=bt['sp'],
              why='a NaN joint density must not count as slice-admissible')
    ctx.check('C14.nuts.s_polarity', AT, 'base.s\'', carries_L(base[10]), expected='s\' = [1000 - logu + joint > 0] on the true edge', found=show(base[10])[:200], sp=bt['sp'],
              why='a NaN joint density must stop the trajectory (divergence)')
    # merge weight: candidate replaced only under U < n''/max(n'+n'',1)
    f6 = recu[6]
    okm = False
    # candidate := ite(s' && [U < weight], second subtree's, first subtree's): the selection test is the conjunct that carries the draw
    selc = [c for c in conjuncts(f6[1]) if any(T.is_app(x) and x[1].startswith('rng_random') for x in T.subterms(c))] if f6[0] == 'ite' else []
    if len(selc) == 1:
        c = selc[0]
        if ordered_true_edge(c) and c[2][0] == 'poly':
            # -U + n2 * max(..)^-1 > 0
            pos = [m for m, q in c[2][1] if q[0] > 0]
            neg = [m for m, q in c[2][1] if q[0] < 0]
            if len(pos) == 1 and len(neg) == 1 and len(neg[0]) == 1 and T.is_app(neg[0][0][0]) and neg[0][0][0][1].startswith('rng_random'):
                facs = dict(pos[0])
                n2s = [a for a in facs if a[0] == 'ite' or (T.is_app(a) and a[1] == 'proj9')]
                mx = [a for a, e in facs.items() if T.is_app(a, 'max') and e == -1]
                okm = len(n2s) == 1 and facs[n2s[0]] == 1 and len(mx) == 1 and mx[0][2][0] is T.ONE
    ctx.check('C14.nuts.merge_weight', AT, 'rec.select', okm, expected='replace the candidate iff U < n\'\' / max(n\'+n\'\', 1): weight proportional to n\'\', denominator guarded against 0', found=show(selc[0])[:300] if len(selc) == 1 else show(f6)[:200], sp=bt['sp'],
              why='a subtree without admissible points (n\'\' = 0) can never supply the candidate; 0/0 cannot occur')
    # top level
    ev2 = ctx.evaluate(bstep, no_inline=(btkey,))
    loops = [ls for ls in ev2.vf.loops if ls.kind == 'loop' and not ls.ctx]
    if len(loops) != 1:
        ctx.unknown('C14.nuts.top_guard', A, 'loop', why='doubling loop not identified', sp=bstep['sp'])
        return
    ls = loops[0]
    pk = [k for k in ls.lh if keyrepr(k) == 'self.position']
    okt = False
    found = ''
    if pk:
        nx = ls.next[pk[0]]
        found = show(nx)[:300]
        if nx[0] == 'ite' and nx[3] is ls.lh[pk[0]] and nx[1][0] == 'and':
            conj = nx[1][1]
            has_s = any((c[0] == 'ite' and all(T.is_app(x) and x[1] == 'proj10' for x in (c[2], c[3]))) or (T.is_app(c) and c[1] == 'proj10') for c in conj)
            has_w = any(ordered_true_edge(c) and any(T.is_app(x, 'min') for x in T.subterms(c)) for c in conj)
            okt = has_s and has_w
    ctx.check('C14.nuts.top_guard', A, 'accept', okt, expected='position := theta\' only under s\' AND U < min(1, n\'/n) (true edges), else unchanged', found=found, sp=ls.sp,
              why='never adopt a candidate from a subtree that stopped (divergent / NaN trajectories), never on the false edge')
    stores = [w for w in ev2.written_ext() if w == 'self.position']
    ctx.check('C14.nuts.single_store', A, 'store', stores == ['self.position'] and ev2.final_term('self.position') is ls.lx[pk[0]] if pk else False, expected='the doubling loop holds the only store of the position', found=str(stores), sp=bstep['sp'],
              why='no other path can move the chain')


def conversions(ctx):
    """NumCast / FromPrimitive conversions on the accept paths are float->float or int->float (Some for every input)"""
    bad = []
    n = 0
    bstep, rec = locate(ctx)
    names = ['nuts::NUTSChain::step', 'hmc::HMC::step', ctx.helper_key('nuts.fre', 'nuts::find_reasonable_epsilon'), ctx.helper_key('hmc.leapfrog', 'hmc::HMC::leapfrog')]
    if rec and len(rec) == 1:
        names.append(strip_generics(rec[0]['path']))
    for nm in names:
        bs = [b for b in ctx.facts.bodies if b['def_kind'] in ('Fn', 'AssocFn') and strip_generics(b['path']) == nm]
        for b in bs:
            def f(node, b=b):
                nonlocal n
                if node.get('k') == 'Call' and node.get('fn') and callee_key(node['fn']) in ('num_traits::NumCast::from', 'num_traits::FromPrimitive::from_f64', 'num_traits::FromPrimitive::from_f32'):
                    n += 1
                    a = node['args'][0]
                    if a.get('ty') not in ('f64', 'f32', 'usize', 'i32', 'u64', 'i64', 'u32', 'i8', 'u8'):
                        bad.append('%s: from %s at %s' % (nm, a.get('ty'), node.get('sp')))
            walk(b.get('thir'), f)
    ctx.check('C14.conv', 'HMC/NUTS accept paths', 'conversions', not bad and n >= 10, expected='every numeric conversion on these paths takes a primitive float/int (float->float and int->float never fail: NaN and inf map to NaN and inf)',
              found='; '.join(bad) or '%d conversions, all from primitive numerics' % n,
              why='a failing conversion (None) would be unwrapped into a panic instead of a rejection')


def progress(ctx):
    """while-loops on the NUTS paths: no disjunct of the continue-condition is loop-invariant (such a disjunct, once true,
    keeps the loop running forever: the sampler would hang on exactly the inputs the loop is there for)"""
    bstep, rec = locate(ctx)
    bodies = []
    if bstep is not None and rec and len(rec) == 1:
        bodies.append(('NUTSChain::step', bstep, (strip_generics(rec[0]['path']),)))
    fre = ctx.helper('nuts.fre')
    if fre is not None:
        bodies.append(('step-size heuristic (helper of NUTSChain::run)', fre, ()))
    n = 0
    for A, b, noinl in bodies:
        ev = ctx.evaluate(b, no_inline=noinl)
        wl = [ls for ls in ev.vf.loops if ls.kind == 'loop']      # the function's own while-loops and those of private helpers inlined into it
        for i, ls in enumerate(wl):
            n += 1
            brk = [e for e in ls.exits if e[0] == 'break']
            lhs = set(ls.lh.values())
            bad = []
            for e in brk:
                cont = T.lnot(e[2])
                disj = cont[1] if cont[0] == 'or' else (cont,)
                for d in disj:
                    if not any(x in lhs for x in T.subterms(d)):
                        bad.append(show(d)[:160])
            ctx.check('C14.progress', A, 'while#%d' % i, bool(brk) and not bad, expected='every disjunct of the continue-condition depends on a value the loop body changes',
                      found='loop-invariant disjunct(s): ' + '; '.join(bad) if bad else ('no exit' if not brk else 'all disjuncts depend on loop-carried values'), sp=ls.sp,
                      why='necessary for termination: a loop-invariant disjunct that holds at entry can never become false, so the sampler would hang (e.g. on a non-finite first gradient)')
    if n < 3:
        ctx.unknown('C14.progress.floor', 'NUTS', 'while-loops', why='only %d while-loops found on the NUTS paths (3 confirmed on the reference tree)' % n)
