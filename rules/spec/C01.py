"""C01 — Metropolis-Hastings acceptance rule (DESIGN.md section 4/C01, Appendix A.C01)."""
from ..speclib import *
import re

TITLE = 'MH step = accept iff ln u < [p(y)+q(x|y)] - [p(x)+q(y|x)], else state unchanged'
EXPLANATION = ('Value-flow normal form of <MHMarkovChain as MarkovChain>::step (polymorphic THIR body, so the result '
               'holds for every S,F,D,Q and every (x,y,u)) compared with the Metropolis-Hastings specification: '
               'candidate from one Proposal::sample on the pre-step state, acceptance condition '
               'p(y)+q(y->x)-p(x)-q(x->y)-ln(u) > 0 (strict), u one StandardUniform draw from the chain generator, '
               'single conditional store of y into the state, returned reference is the state.')
TECHNIQUE = 'value-flow normal form vs specification table'

A = '<MHMarkovChain as MarkovChain>::step'


def frame_rules(ctx):
    from .. import frame
    STEP, NEW, SEED = '<metropolis_hastings::MHMarkovChain<T, F, D, Q> as core::MarkovChain<T>>::step', 'metropolis_hastings::MHMarkovChain::new', 'metropolis_hastings::MetropolisHastings::seed'
    frame.check_frame(ctx, 'C01', 'metropolis_hastings::MHMarkovChain', {'target': {NEW}, 'proposal': {STEP, NEW, SEED}, 'current_state': {STEP, NEW}, 'rng': {STEP, NEW, SEED}, 'phantom': {NEW}},
                      why="the chain's state, target, proposal and generator change only through the anchored step (and the constructor / seeding API): any other writer is a second, unspecified transition")
    SNEW, ACC = 'metropolis_hastings::MetropolisHastings::new', '<metropolis_hastings::MetropolisHastings<S, T, D, Q> as core::HasChains<S>>::chains_mut'
    frame.check_frame(ctx, 'C01', 'metropolis_hastings::MetropolisHastings', {'target': {SNEW}, 'proposal': {SNEW}, 'chains': {SNEW, ACC, SEED}},
                      why='the runner hands out its chains (accessor) and re-seeds them; nothing else replaces or edits them')
    frame.shadowing(ctx, 'C01', ['metropolis_hastings::MHMarkovChain', 'metropolis_hastings::MetropolisHastings'])


def run(ctx):
    frame_rules(ctx)
    b0 = ctx.anchor(A, name='step', trait='core::MarkovChain', self_head='metropolis_hastings::MHMarkovChain')
    if b0 is not None:
        narrowing_budget(ctx, 'C01', A, [b0], {}, why='a conversion to a fixed narrower float type (or an f64 -> element-type read-back) on this path changes values for wider element types / back ends', sp=b0['sp'])
    b = ctx.anchor(A, name='step', trait='core::MarkovChain', self_head='metropolis_hastings::MHMarkovChain')
    if b is None:
        for o in ('C01.sample', 'C01.ratio', 'C01.draw', 'C01.store', 'C01.ret'):
            ctx.unknown(o, A, o.split('.')[1], why='anchor not found: impl MarkovChain for metropolis_hastings::MHMarkovChain, fn step')
        return
    ev = ctx.evaluate(b)
    sp = b['sp']
    x0 = selff('current_state')
    tgt = selff('target')
    prop0 = selff('proposal')

    # --- C01.sample : y = Proposal::sample(&mut self.proposal, x@0), exactly once
    samples = ev.events(lambda e: e.key == 'distributions::Proposal::sample')
    y = None
    if len(samples) != 1:
        ctx.bad('C01.sample', A, 'candidate', expected='exactly one Proposal::sample call',
                found='%d calls' % len(samples), why='a second call would evaluate the density of a different candidate', sp=sp)
    else:
        y = samples[0].res
        exp = T.app('distributions::Proposal::sample', prop0, x0)
        ctx.eq('C01.sample', A, 'candidate', y, exp, why='candidate must be drawn from q(.|x) at the pre-step state by the chain\'s own proposal', sp=samples[0].sp)
    if y is None:
        y = T.app('distributions::Proposal::sample', prop0, x0)
    prop1 = T.app('post0', y)
    name_terms(x=x0, y=y, q=prop1)

    # --- C01.draw : u = one StandardUniform draw over F from self.rng, through ln exactly once
    draws = ev.events(lambda e: e.op == 'draw')
    logps = ev.events(lambda e: e.key == 'distributions::Target::unnorm_logp')
    u = None
    if len(draws) != 1:
        ctx.bad('C01.draw', A, 'u', expected='exactly one draw per step', found='%d draws' % len(draws),
                why='the acceptance variate must be a single fresh uniform', sp=sp)
    else:
        d = draws[0]
        u = d.res
        # generic parameters are named per impl block (the trait impl says MHMarkovChain<T, F, D, Q>, an inherent impl holding a helper
        # may say MHMarkovChain<S, T, D, Q>): compare POSITIONS in the self type of the function that owns the draw -- the log-density
        # type is the chain type's second generic argument
        def self_args(path):
            ob = [x for x in ctx.facts.bodies if strip_generics(x['path']) == path and x.get('self_ty')]
            m_ = re.match(r'[^<]*<(.*)>\s*$', ob[0]['self_ty']) if ob else None
            return [a.strip() for a in m_.group(1).split(',')] if m_ else []
        owner_args = self_args(d.owner or strip_generics(b['path'])) or self_args(strip_generics(b['path']))
        okk = (d.draw_kind == 'rng_random' and root_place(d.args[0]) == 'self.rng' and len(d.gargs) > 1 and len(owner_args) >= 2 and d.gargs[1] == owner_args[1])
        ctx.check('C01.draw', A, 'u', okk, expected='Rng::random::<F>() [StandardUniform over the log-density type] on self.rng',
                  found='%s<%s> on %s' % (d.draw_kind, ','.join(d.gargs[1:]), root_place(d.args[0])),
                  why='u must be uniform on [0,1) in the precision of the log-densities and come from the chain generator', sp=d.sp)
    if u is None:
        u = T.app('rng_random<F>', selff('rng'))

    name_terms(u=u)
    # --- C01.ratio + C01.store
    def p(z):
        return T.app('distributions::Target::unnorm_logp', tgt, z)

    def q(frm, to):
        return T.app('distributions::Proposal::logp', prop1, frm, to)

    lhs = T.sum_terms([p(y), q(y, x0), T.neg(p(x0)), T.neg(q(x0, y)), T.neg(T.app('ln', u))])
    cond = T.cmp('gt', lhs, T.ZERO)
    final = ev.final_term('self.current_state')
    found_cond = final[1] if final[0] == 'ite' else None
    if found_cond is None:
        ctx.bad('C01.ratio', A, 'accept-cond', expected=show(cond), found=show(final),
                why='state after the step must be a two-way choice between y and x', sp=sp)
    else:
        ctx.eq('C01.ratio', A, 'accept-cond', found_cond, cond,
               why='Hastings ratio with q(x|y)=logp(from=y,to=x) in the numerator, strict comparison against ln u', sp=sp)
    exp_final = T.ite(found_cond if found_cond is not None else cond, y, x0)
    ctx.eq('C01.store', A, 'state', final, exp_final,
           why='accepted => state is exactly y; rejected => state bit-for-bit unchanged', sp=sp)
    others = [w for w in ev.written_ext() if w not in ('self.current_state', 'self.proposal', 'self.rng')]
    ctx.check('C01.store.only', A, 'other-writes', not others, expected='no field written besides current_state (proposal/rng through &mut)',
              found=', '.join(others) or 'none', why='step changes nothing else', sp=sp)
    # proposal / rng only advanced through their own calls
    ctx.eq('C01.store.rng', A, 'rng', ev.final_term('self.rng'), T.app('post0', u), why='generator advanced by exactly the one draw', sp=sp)

    # --- C01.ret
    r = ev.ret
    isref = isinstance(r, Ref) and r.place == Place(('ext', 'self'), ('current_state',))
    ctx.check('C01.ret', A, 'return', isref, expected='&self.current_state', found=repr(r)[:120] if not isinstance(r, T.Tm) else show(r),
              why='callers record the returned state', sp=sp)
