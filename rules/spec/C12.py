"""C12 — ESS = M*N/tau with Geyer's monotone sequence, whichever autocovariance path runs (DESIGN.md section 4/C12, Appendix A.C12)."""
from ..speclib import *
import re
from .C11 import roles, wv_forms

TITLE = 'ESS = (half-chains x length)/tau, tau = -1 + 2 sum of Geyer\'s initial positive monotone pair sums of rho_t = 1 - (W - mean acov_t)/var+; both autocovariance paths'
EXPLANATION = ('Value-flow normal forms and loop summaries of the ESS helper of split_rhat_mean_ess (located by its role) and of the autocovariance functions reached from it: '
               'rho = 1 - (W - mean_chains acov)/var+ on the same split array / W / var+ as R-hat; pair sums over stride-2 windows P_k = rho_2k + rho_2k+1, stop at the first '
               'P_k <= 0, running-minimum clamp, tau = -1 + 2 sum P_k, ESS = m h / tau; path switch at 100 rows; brute force: centred, (1/h) sum_{t<h-lag} x_t x_{t+lag}; '
               'FFT: centred, zero-padded to a power of two >= 2h-1 (loop summary of the doubling), |X|^2, inverse, real part, first h lags, scale 1/(n_padded h); '
               'lag-0 consistency of the normaliser with W. Equality of the two paths up to rounding (the convolution theorem) and the AR(1)/i.i.d. asymptotics are not decided.')
TECHNIQUE = 'value-flow normal form + loop summaries (exit conditions, carried minima, doubling loop) vs specification table'
R3 = lambda s: {s: 3}


def local_callees(ctx, body):
    out = []

    def f(n):
        if n.get('k') in ('Call', 'Zst') and isinstance(n.get('fn'), dict):       # calls and function items passed as values
            fn = n['fn']
            if fn.get('local') and fn.get('container') != 'trait':
                out.append(callee_key(fn))
    def visit(b):
        walk(b.get('thir'), f)
        for c in ctx.facts.children.get(b['did'], []):
            if c['def_kind'] == 'Closure':
                visit(c)
    visit(body)
    return sorted(set(out))


def body_of(ctx, key):
    bs = [x for x in ctx.facts.bodies if x['def_kind'] in ('Fn', 'AssocFn') and strip_generics(x['path']) == key]
    return bs[0] if len(bs) == 1 else None


def run(ctx):
    for nm, root in (('stats::split_rhat_mean_ess', ctx.anchor('split', path='stats::split_rhat_mean_ess')), ('stats::ess_from_chainstats', ctx.anchor('efc', path='stats::ess_from_chainstats'))):
        if root is not None:
            narrowing_budget(ctx, 'C12', nm, [root], {}, why='a conversion to a fixed narrower float type (or an f64 -> element-type read-back) on this path changes values for wider element types / back ends', sp=root['sp'])
    # the ESS a user sees comes through RunStats::from(view) -> from_f32_view -> split_rhat_mean_ess: the entry point must hand the
    # LOGICAL array on (element-wise conversion in logical order), whatever the memory layout of the view (shared with C11)
    from .C11 import runstats
    got = ctx.borrow(runstats, lambda oid: oid.startswith('C11.from'))
    if not got:
        ctx.unknown('C12.entry', 'RunStats::from', 'borrowed', why='entry-point obligations (C11.from*) could not be instantiated')
    b, ev, bodies = roles(ctx)
    # the half-chains the autocovariances are taken of: first and LAST n div 2 draws of every chain (shared with C11)
    if bodies and bodies.get('split') is not None:
        from .C11 import split as c11_split
        got = ctx.borrow(lambda c: c11_split(c, bodies['split']), lambda oid: oid == 'C11.split')
        if not got:
            ctx.unknown('C12.split', 'split', 'borrowed', why='split obligation (C11.split) could not be instantiated')
    A = 'ESS (helper of split_rhat_mean_ess)'
    if b is None or not bodies or bodies.get('ess') is None:
        ctx.unknown('C12.ess', A, 'anchor', why='ESS helper of stats::split_rhat_mean_ess not located')
        return
    ctx.ok('C12.same_split_W_var', 'stats::split_rhat_mean_ess', 'wiring', expected='ESS(split, W, var+) on the very split array and (W, var+) used for R-hat', found=show(ev.ret_term)[:200], sp=b['sp'],
           why='rho_t is formed from the same W and var+ as R-hat')
    be = bodies['ess']
    callees = [k for k in local_callees(ctx, be)]
    # the autocovariance function by role: the crate-local callee mapping a 2-D view (one chain) to an owned 2-D array; any other
    # private helper of the ESS function (e.g. an extracted pair-sum routine) is inlined by the evaluation
    def is_acov(k):
        cb = body_of(ctx, k)
        sig = (cb or {}).get('sig') or ''
        return cb is not None and len(cb.get('params', [])) == 1 and re.search(r'ViewRepr<&(\'\w+ )?f32>, ndarray::Dim<\[usize; 2\]>>\) -> ndarray::ArrayBase<ndarray::OwnedRepr<f32>, ndarray::Dim<\[usize; 2\]>>', sig) is not None
    # ... searched through private helpers of the ESS function as well (e.g. an extracted "mean autocovariance over chains"); of the
    # functions with that signature the top-most one (not called by another candidate) is the dispatcher
    seen_, stack_ = set(callees), list(callees)
    while stack_:
        cb_ = body_of(ctx, stack_.pop())
        if cb_ is None:
            continue
        for k2 in local_callees(ctx, cb_):
            if k2 not in seen_:
                seen_.add(k2)
                stack_.append(k2)
    cands = [k for k in sorted(seen_) if is_acov(k)]
    below = set()
    for k in cands:
        # everything a candidate reaches (also through private dispatch helpers: an enum of methods with a `run`)
        st_, sn_ = list(local_callees(ctx, body_of(ctx, k))), set()
        while st_:
            k2 = st_.pop()
            if k2 in sn_:
                continue
            sn_.add(k2)
            cb2 = body_of(ctx, k2)
            if cb2 is not None:
                st_.extend(local_callees(ctx, cb2))
        below |= sn_
    ac = [k for k in cands if k not in below]
    if len(ac) != 1:
        ctx.unknown('C12.ess', A, 'autocov', why='expected the ESS helper to call exactly one crate-local autocovariance function (2-D view -> 2-D array); found %s among %s' % (ac, callees), sp=be['sp'])
        return
    ackey = ac[0]
    ess(ctx, A, be, ackey)
    autocov(ctx, ackey, bodies)
    from_chainstats(ctx, be)


def from_chainstats(ctx, be):
    """the streaming entry point: ess_from_chainstats(sample, cs) = ESS(sample, W, var+) with (W, var+) from the chain statistics, in this
    order.  Which component is W and which var+ is pinned through collect_rhat = sqrt(second / first) (whose value C13 decides)."""
    A = 'stats::ess_from_chainstats'
    b = ctx.anchor(A, path='stats::ess_from_chainstats')
    bc = ctx.anchor('stats::collect_rhat', path='stats::collect_rhat')
    if b is None or bc is None:
        ctx.unknown('C12.efc', A, 'anchor', why='anchor not found (ess_from_chainstats / collect_rhat)')
        return
    esskey = strip_generics(be['path'])
    shared = [k for k in local_callees(ctx, b) if k in local_callees(ctx, bc)]
    if len(shared) != 1:
        ctx.unknown('C12.efc', A, 'helper', why='expected exactly one private (W, var+) helper shared by ess_from_chainstats and collect_rhat (found %s)' % shared, sp=b['sp'])
        return
    wvk = shared[0]
    ev = ctx.evaluate(b, no_inline=(esskey, wvk), tag='efc')
    ps = [p['pat']['name'] for p in b['params'] if p.get('pat', {}).get('k') == 'Binding']
    smp, cs = S(ps[0]), S(ps[1])
    R = T.app(wvk, cs)
    # the helper's two results are named by position (a tuple) or by field (a private struct): whichever the ESS call takes second and
    # third are the roles "W" and "var+" as far as this function is concerned; collect_rhat must then be sqrt(that var+ / that W)
    comp_w, comp_v = (lambda r: T.proj(r, 0)), (lambda r: T.proj(r, 1))
    rt = ev.ret_term
    if T.is_app(rt, esskey) and len(rt[2]) == 3 and all(T.is_app(x) and x[1].startswith('.') and len(x[2]) == 1 and x[2][0] is R for x in rt[2][1:]) and rt[2][1][1] != rt[2][2][1]:
        fw, fv = rt[2][1][1], rt[2][2][1]
        comp_w, comp_v = (lambda r: T.app(fw, r)), (lambda r: T.app(fv, r))
    ctx.eq('C12.efc', A, 'wiring', ev.ret_term, T.app(esskey, smp, comp_w(R), comp_v(R)), sp=b['sp'],
           why='ESS(sample, W, var+): the first component of the chain-statistics helper is W, the second var+ (swapped, rho_t = 1 - (var+ - acov_t)/W)')
    evc = ctx.evaluate(bc, no_inline=(wvk,), tag='efc')
    pc = [p['pat']['name'] for p in bc['params'] if p.get('pat', {}).get('k') == 'Binding']
    Rc = T.app(wvk, S(pc[0]))
    ctx.eq('C12.efc.roles', 'stats::collect_rhat', 'roles', evc.ret_term, T.app('sqrt', T.div(comp_v(Rc), comp_w(Rc))), sp=bc['sp'],
           why='collect_rhat = sqrt(second / first) of the same helper: with C13 (collect_rhat = sqrt(var+/W)) this pins first = W, second = var+')


def ess(ctx, A, be, ackey):
    ev = ctx.evaluate(be, no_inline=(ackey,))
    sp = be['sp']
    ps = [p['pat']['name'] for p in be['params'] if p.get('pat', {}).get('k') == 'Binding']
    if len(ps) != 3:
        ctx.unknown('C12.ess', A, 'signature', why='expected (sample, within, var)', sp=sp)
        return
    smp, W, V = [S(x) for x in ps]
    shp = T.app('shape', smp)
    m, h, p = index_term(shp, N(0)), index_term(shp, N(1)), index_term(shp, N(2))
    c = S('k#c')
    AC = lambda ci: T.app(ackey, T.app('index_axis', smp, AX(0), ci))
    R = mk_comp(m, c, AC(c))
    k2 = S('k#v')
    Rv = mk_comp(seq_len(R), k2, index_term(R, k2))
    avg = T.app('mean_axis', T.app('stack', AX(0), Rv), AX(0))
    def rho_for(bshape):
        return T.add(T.neg(T.div(T.add(T.neg(avg), T.app('broadcast', W, bshape)), T.app('broadcast', V, bshape))), T.ONE)
    # W and var+ are broadcast over the lags: to (h, p) read from the sample, or to the shape of the averaged autocovariance itself
    rho_alts = [rho_for(T.tup(h, p)), rho_for(T.tup(index_term(T.app('shape', avg), N(0)), index_term(T.app('shape', avg), N(1)))), rho_for(T.app('shape', avg))]
    rho = rho_alts[0]
    for cand in rho_alts[1:]:
        if any(contains(ev.t(ls_.n), cand) for ls_ in ev.vf.loops if ls_.n is not None) or contains(ev.ret_term, cand):
            rho = cand
    name_terms(rho=rho)
    loops = [ls for ls in ev.vf.loops if ls.kind == 'for' and 'windows_with_stride' in (ls.seq_desc or '')]      # the windows themselves, or map / take_while over them
    if len(loops) != 1:
        ctx.unknown('C12.pairs', A, 'pairs', why='expected one loop over stride-2 windows of rho (found %d)' % len(loops), sp=sp)
        return
    ls = loops[0]
    outer = [l2 for l2 in ev.vf.loops if l2.uid in ls.ctx]
    d = outer[0].var if outer else None
    rho_d = T.app('index_axis', rho, AX(1), d) if d is not None else None
    it = ls.var
    ctx.check('C12.rho', A, 'rho', d is not None and ls.n is T.app('n_windows', rho_d, N(2), N(2)) and outer[0].n is p,
              expected='pair loop over windows_with_stride(2, 2) of rho[:, d], rho = 1 - (W - mean_chains acov)/var+ (broadcast over lags), for every parameter d', found='n=%s' % show(ls.n)[:300], sp=ls.sp,
              why='rho_t = 1 - (W - mean_c acov_t)/var+ per lag and parameter; pairs are (rho_2k, rho_2k+1)')
    if d is None:
        return
    win = T.app('window', rho_d, N(2), N(2), it)
    P = T.add(index_term(win, N(0)), index_term(win, N(1)))
    name_terms(P_k=P)
    ctx.check('C12.pairs.window', A, 'window', any(contains(ev.t(ls.next[k]), P) for k in ls.lh), expected='P_k = w[0] + w[1] of the k-th stride-2 window', found='…', sp=ls.sp,
              why='Geyer\'s pair sums P_k = rho_2k + rho_2k+1')
    br = [e for e in ls.exits if e[0] == 'break']
    ctx.check('C12.pairs.cut', A, 'cut', len(ls.exits) == 1 and len(br) == 1 and br[0][2] is T.cmp('le', P, T.ZERO), expected='stop at the first P_k <= 0', found='; '.join(show(e[2])[:200] for e in ls.exits), sp=ls.sp,
              why='initial positive sequence: the sum is truncated at the first non-positive pair')
    mins = [k for k in ls.lh if isinstance(ls.next[k], T.Tm) and ls.next[k] is T.ite(T.cmp('gt', P, ls.lh[k]), ls.lh[k], P)]
    if len(mins) != 1:
        ctx.bad('C12.pairs.clamp', A, 'clamp', expected='running minimum: min := min(P_k, min)', found='; '.join('%s := %s' % (keyrepr(k), show(ev.t(ls.next[k]))[:120]) for k in ls.lh), sp=ls.sp,
                why='initial monotone sequence: each pair sum is clamped by the previous ones')
        return
    mk_ = mins[0]
    clamped = ls.next[mk_]
    ctx.ok('C12.pairs.clamp', A, 'clamp', expected='min := min(P_k, min)', found=show(clamped)[:160], sp=ls.sp, why='initial monotone sequence')
    outs = [k for k in ls.lh if k != mk_]
    okout = len(outs) == 1 and ls.next[outs[0]] is T.add(ls.lh[outs[0]], clamped) and ls.init[outs[0]] is T.ZERO
    ctx.check('C12.pairs.sum', A, 'sum', okout, expected='out := out + clamped P_k, out_0 = 0', found='; '.join(show(ev.t(ls.next[k]))[:120] for k in outs), sp=ls.sp, why='sum of the clamped pair sums')
    init_min = T.ite(T.icmp('ge', T.app('len', rho_d), N(2)), T.add(index_term(rho_d, T.app('array', N(0))), index_term(rho_d, T.app('array', N(1)))), T.ZERO)
    ctx.eq('C12.pairs.init', A, 'min-init', ls.init[mk_], init_min, sp=ls.sp, why='the clamp starts at the first pair sum (so the first pair is never reduced)')
    if okout:
        tau = T.sub(T.mul(N(2), ls.lx[outs[0]]), T.ONE)
        exp = T.mul(T.mul(T.div(T.ONE, mk_comp(p, d, tau)), m), h)
        ctx.eq('C12.tau_ess', A, 'ess', ev.ret_term, exp, sp=sp, why='tau = -1 + 2 sum P_k and ESS = m h / tau (m half-chains of length h)')


def autocov(ctx, ackey, bodies):
    A = 'autocovariance switch'
    ba = body_of(ctx, ackey)
    if ba is None:
        ctx.unknown('C12.switch', A, 'anchor', why='autocovariance function not found')
        return
    callees = local_callees(ctx, ba)
    # the two implementations stay opaque calls; private dispatch helpers between the switch and them (an enum of methods with a
    # `run`, a threshold function) are inlined
    ACOV_SIG = r"ViewRepr<&('\w+ )?f32>, ndarray::Dim<\[usize; 2\]>>\) -> ndarray::ArrayBase<ndarray::OwnedRepr<f32>, ndarray::Dim<\[usize; 2\]>>"
    st_, reach = list(callees), set()
    while st_:
        k2 = st_.pop()
        if k2 in reach:
            continue
        reach.add(k2)
        cb2 = body_of(ctx, k2)
        if cb2 is not None:
            st_.extend(local_callees(ctx, cb2))
    impls = [k2 for k2 in reach if body_of(ctx, k2) is not None and len(body_of(ctx, k2).get('params', [])) == 1 and re.search(ACOV_SIG, body_of(ctx, k2).get('sig') or '')]
    ev = ctx.evaluate(ba, no_inline=tuple(impls), tag='switch') if set(callees) - set(impls) else ctx.evaluate(ba, inline=False)
    ret = ev.ret_term
    ps = [p['pat']['name'] for p in ba['params'] if p.get('pat', {}).get('k') == 'Binding']
    smp = S(ps[0]) if ps else S('sample')
    # rows <= 100 -> brute force else FFT, or the same decision written as rows > 100 -> FFT else brute force (integer comparison)
    le100 = T.icmp('le', index_term(T.app('shape', smp), N(0)), N(100))
    br_bf = br_fft = None
    if ret[0] == 'ite' and ret[1] is le100:
        br_bf, br_fft = ret[2], ret[3]
    elif ret[0] == 'ite' and ret[1] is T.cmp('gt', index_term(T.app('shape', smp), N(0)), N(100)):
        br_bf, br_fft = ret[3], ret[2]
    ok = br_bf is not None and T.is_app(br_bf) and T.is_app(br_fft) and br_bf[2] == (smp,) and br_fft[2] == (smp,) and br_bf[1] != br_fft[1]
    ctx.check('C12.switch', A, 'switch', ok, expected='rows <= 100 -> brute force, else FFT; both on the same chain', found=show(ret)[:200], sp=ba['sp'], why='path selection by chain length')
    if not ok:
        return
    bf(ctx, body_of(ctx, br_bf[1]))
    fft(ctx, body_of(ctx, br_fft[1]))
    # lag-0 consistency with W: C11's W divisor must be h (biased), as both paths normalise by 1/h
    wvb = bodies.get('withinvar')
    if wvb is not None:
        evw = ctx.evaluate(wvb)
        param = wvb['params'][0]['pat']['name']
        s_ = S(param)
        found = canon_nd(evw.ret_term, {s_: 3})
        p = index_term(T.app('shape', s_), N(2))
        exps = [T.tup(mk_comp(p, k, w), mk_comp(p, k, v)) for k, w, v in wv_forms(s_, lambda h: (h, T.sub(h, T.ONE)))]
        ctx.eq('C12.lag0', 'within/var+ ~ autocovariance', 'normaliser', found, exps[0], alts=exps[1:], sp=wvb['sp'],
               why='the W of rho_t = 1 - (W - acov_t)/var+ is the mean CENTRED within-chain variance (divisor h, matching the 1/h lag-0 autocovariance exactly, or h-1 as in Stan): '
                   'a variance computed another way (e.g. E[x^2]-E[x]^2) no longer agrees with the lag-0 autocovariance and shifts every rho_t')


def bf(ctx, b):
    A = 'autocovariance (brute force)'
    if b is None:
        ctx.unknown('C12.bf', A, 'anchor', why='function not found')
        return
    ev = ctx.evaluate(b)
    sp = b['sp']
    ps = [p['pat']['name'] for p in b['params'] if p.get('pat', {}).get('k') == 'Binding']
    data = S(ps[0])
    n, dcols = index_term(T.app('shape', data), N(0)), index_term(T.app('shape', data), N(1))
    loops = {ls.uid: ls for ls in ev.vf.loops}
    outer = [ls for ls in ev.vf.loops if not ls.ctx and ls.kind == 'for']
    inner = [ls for ls in ev.vf.loops if len(ls.ctx) == 1 and ls.kind == 'for']
    if len(outer) != 1 or len(inner) != 1:
        ctx.unknown('C12.bf', A, 'loops', why='expected column loop and lag loop (found %d, %d)' % (len(outer), len(inner)), sp=sp)
        return
    lo, li = outer[0], inner[0]
    col = lo.var
    # the lag index: the loop variable of `for lag in 0..n`, or the counter of `column.iter_mut().enumerate()`
    lag = li.var
    ok_ = carried_keys(li)
    column = T.app('index_axis', data, AX(1), col)
    cdat = T.sub(column, T.app('mean', column))
    t = S('k#t')
    def lagged(count):
        return T.div(T.app('sum', mk_comp(T.sub(count, lag), t, T.mul(index_term(cdat, t), index_term(cdat, T.add(t, lag))))), n)
    val = lagged(n)
    val_alts = [lagged(T.app('len', cdat)), lagged(T.app('len', column))]      # the series length is n (a column of an (n, d) array)
    # all n lags: `0..n`, or one per entry of the output column (the output is zeros((n, d)) and element updates keep its shape)
    outk = [k for k in carried_keys(lo)]
    lag_counts = [n] + ([T.app('len', index_term(lo.lh[outk[0]], T.app('axis', AX(1), col)))] if len(outk) == 1 and lo.init[outk[0]] is T.app('zeros', T.tup(n, dcols)) else [])
    def names_col(x):
        # the output column is paired with its own input column: by index (enumerate) or by walking both in lockstep (zip)
        try:
            tx = ev.t(x)
        except Exception:
            return False
        return tx is col or tx is T.app('index_axis', data, AX(1), col)
    okshape = lo.n in (index_term(T.app('shape', T.app('zeros', T.tup(n, dcols))), N(1)), dcols) and any(li.n is x for x in lag_counts) and isinstance(lo.elem, Tup) and any(names_col(x) for x in lo.elem.items)
    ctx.check('C12.bf.loops', A, 'loops', okshape and len(ok_) == 1, expected='every column of an (n, d) zero array, every lag 0..n', found='cols n=%s, lags n=%s' % (show(lo.n), show(li.n)), sp=sp, why='one autocovariance series per parameter, all h lags')
    if len(ok_) != 1:
        return
    k = ok_[0]
    mkexp = lambda v_: T.app('upd', li.lh[k], T.app('axis', AX(1), col), T.app('upd', index_term(li.lh[k], T.app('axis', AX(1), col)), lag, v_))
    exp = mkexp(val)
    # every spelling of the series length is n (a column of an (n, d) array; checked as C12.bf.loops for the lag count): differences
    # the evaluator left saturating (`iter().skip(lag)`) are decided with lag < n
    same_n = {x: n for x in [T.app('len', cdat), T.app('len', column)] + lag_counts[1:]}
    found = settle_monus(T.subst(li.next[k], same_n), {lag: n}) if okshape and isinstance(li.next[k], T.Tm) else li.next[k]
    ctx.eq('C12.bf.value', A, 'value', found, exp, alts=[mkexp(v_) for v_ in val_alts], sp=li.sp, why='out[lag, col] = (1/n) sum_{t < n-lag} c_t c_{t+lag}, c the mean-centred column (centre, sum, normalise by the chain length)')
    ctx.eq('C12.bf.ret', A, 'return', ev.ret_term, lo.lx[outk[0]] if len(outk) == 1 else T.UNIT, sp=sp, why='returns the filled array')


def fft(ctx, b):
    A = 'autocovariance (FFT)'
    if b is None:
        ctx.unknown('C12.fft', A, 'anchor', why='function not found')
        return
    ev = ctx.evaluate(b)
    sp = b['sp']
    ps = [p['pat']['name'] for p in b['params'] if p.get('pat', {}).get('k') == 'Binding']
    smp = S(ps[0])
    n = index_term(T.app('shape', smp), N(0))
    d = index_term(T.app('shape', smp), N(1))
    pads = [ls for ls in ev.vf.loops if ls.kind == 'loop' and not ls.ctx]
    if len(pads) != 1 or len(pads[0].lh) != 1:
        ctx.unknown('C12.fft.pad', A, 'pad', why='padding loop not identified', sp=sp)
        return
    pl = pads[0]
    pk = list(pl.lh)[0]
    okpad = pl.init[pk] is T.ONE and pl.next[pk] in (T.app('shl', pl.lh[pk], T.ONE), T.mul(N(2), pl.lh[pk])) and len(pl.exits) == 1 and \
        pl.exits[0][2] is T.lnot(T.cmp('lt', pl.lh[pk], T.sub(T.mul(N(2), n), T.ONE)))
    ctx.check('C12.fft.pad', A, 'pad', okpad, expected='n_padded = 1; while n_padded < 2n - 1 { n_padded *= 2 }', found='init %s next %s exit %s' % (show(pl.init[pk]), show(pl.next[pk]), '; '.join(show(e[2]) for e in pl.exits)), sp=pl.sp,
              why='zero padding to a power of two >= 2n - 1 avoids circular wrap-around')
    NP = pl.lx[pk]
    name_terms(n_padded=NP)
    procs = ev.events(lambda e: e.key == 'rustfft::Fft::process')
    plans = {e.res: e for e in ev.vf.events if e.key in ('rustfft::FftPlanner::plan_fft_forward', 'rustfft::FftPlanner::plan_fft_inverse')}
    okdir = len(procs) == 2 and T.is_app(procs[0].args[0], 'rustfft::FftPlanner::plan_fft_forward') and T.is_app(procs[1].args[0], 'rustfft::FftPlanner::plan_fft_inverse') \
        and procs[0].args[0][2][1] is NP and procs[1].args[0][2][1] is NP
    ctx.check('C12.fft.plan', A, 'plan', okdir, expected='forward transform, then inverse transform, both of length n_padded', found='; '.join(show(e.args[0])[:100] for e in procs), sp=sp,
              why='autocovariance = inverse FFT of |FFT|^2')
    if not okdir:
        return
    cols = [ls for ls in ev.vf.loops if ls.kind == 'forced' and not ls.ctx and ls.seq_desc.startswith('map(axis_iter')]
    if len(cols) != 1:
        ctx.unknown('C12.fft.centre', A, 'columns', why='per-column map not identified', sp=sp)
        return
    cl = cols[0]
    traj = T.app('index_axis', smp, AX(1), cl.var)
    mean = T.div(T.app('sum', traj), T.app('len', traj))
    x0 = procs[0].args[1]
    t = S('k#t')
    zero = T.app('adt:rustfft::num_complex::Complex', T.app('f:re', T.ZERO), T.app('f:im', T.ZERO))
    ntraj = T.app('len', traj)
    padlen = T.sub(NP, n)           # ([zero].repeat(k) and iter::repeat(zero).take(k) are both k copies of zero)
    elem = T.ite(T.cmp('lt', t, ntraj), T.app('adt:rustfft::num_complex::Complex', T.app('f:re', T.sub(index_term(traj, t), mean)), T.app('f:im', T.ZERO)), zero)
    # the series length is n (a column of an (n, d) array) and n <= n_padded (C12.fft.pad): a buffer of n_padded zeros whose first
    # min(n_padded, n) slots are overwritten is the same vector
    same = {ntraj: n, T.app('min', *sorted([NP, n], key=T.key)): n, T.app('min', *sorted([NP, ntraj], key=T.key)): n}
    norm = lambda x: T.subst(T.subst(x, same), same) if isinstance(x, T.Tm) else x
    exp0 = mk_comp(T.add(ntraj, padlen), t, elem)
    ctx.eq('C12.fft.centre', A, 'input', norm(x0), norm(exp0), alts=[mk_comp(NP, t, norm(elem))], sp=sp, why='mean-centred series followed by n_padded - n zeros')
    X1 = T.app('post1', procs[0].res)
    sq = [ls for ls in ev.vf.loops if ls.kind == 'for' and ls.ctx == (cl.uid,) and any(ls.init.get(k_) is X1 for k_ in ls.lh)]
    oksq = False
    if len(sq) == 1 and len(sq[0].lh) == 1:
        k = list(sq[0].lh)[0]
        lh = sq[0].lh[k]
        xi = index_term(lh, sq[0].var)
        oksq = sq[0].init[k] is X1 and sq[0].next[k] is T.app('upd', lh, sq[0].var, T.mul(xi, T.app('conj', xi))) and sq[0].n is T.app('len', X1) and not sq[0].exits
        X2 = sq[0].lx[k]
    ctx.check('C12.fft.power', A, 'power', oksq, expected='x_i := x_i * conj(x_i) for every element of the forward transform', found='…', sp=sp, why='power spectrum |X|^2')
    if not oksq:
        return
    ctx.check('C12.fft.inverse_input', A, 'inverse', procs[1].args[1] is X2, expected='inverse transform of the power spectrum', found=show(procs[1].args[1])[:100], sp=sp, why='inverse FFT of |X|^2')
    X3 = T.app('post1', procs[1].res)
    res = getattr(cl, 'result_term', None)
    t2 = S('k#u')
    exp_res = mk_comp(T.app('min', *sorted([n, T.app('len', X3)], key=T.key)), t2, T.div(T.div(fld(index_term(X3, t2), 're'), NP), n))
    ctx.eq('C12.fft.norm_take', A, 'norm', res, exp_res, sp=sp, why='real part of the first n lags scaled by 1/(n_padded n): rustfft does not normalise, and the autocovariance is normalised by the chain length')
    flat = T.app('flatten', T.app('eff', mk_comp(cl.n, cl.var, res), S('loop%d' % cl.uid))) if res is not None else None
    exp_ret = T.app('transpose', T.app('from_shape_vec', T.tup(d, n), flat)) if flat is not None else None
    ctx.check('C12.fft.layout', A, 'layout', exp_ret is not None and ev.ret_term is exp_ret and cl.n is index_term(T.app('shape', smp), N(1)), expected='(d, n) array of the per-column series, transposed to (n, d)', found=show(ev.ret_term)[:200], sp=sp,
              why='lags along axis 0, parameters along axis 1 (same layout as the brute-force path)')
