"""C15 — built-in densities, gradients, proposal density (DESIGN.md section 4/C15, Appendix A.C15)."""
from ..speclib import *

TITLE = 'Built-in densities, gradients and the isotropic proposal density match their definitions'
EXPLANATION = ('Value-flow normal forms of every built-in density compared with the textbook closed forms: Gaussian2D normalised and '
               'unnormalised (difference independent of the position: taint rule), DiffableGaussian2D::new (inverse, log-det, normaliser), '
               'its batched and single evaluation (same quadratic form, inverse-covariance entries in row-major order), Rosenbrock2D (both impls) '
               'and RosenbrockND, the autodiff wiring of GradientTarget::unnorm_logp_and_grad (gradient of the returned value w.r.t. the leaf it was '
               'evaluated on), IsotropicGaussian sample / logp (quadratic part, normalising constant -(d/2) ln(2 pi sigma^2), symmetry under from<->to) / '
               'set_seed (overwrites the generator that sample consumes) / unnorm_logp. Tensor plumbing (reshape of literals, expand, squeeze) is '
               'quotiented out; f32-level accuracy and conditioning are not decided.')
TECHNIQUE = 'value-flow normal form vs closed-form specification table; taint (dependence) rule; sibling agreement'
D = 'distributions::'
HALF = N(1) if False else T.div(T.ONE, N(2))
PI = S('pi')
GC = {'graph_cuts_visible': True}   # detach/inner/from_inner stay visible: they change gradients, not values


def need(ctx, oid, desc, **kw):
    b = ctx.anchor(desc, **kw)
    if b is None:
        ctx.unknown(oid, desc, 'anchor', why='anchor not found: %s' % kw)
    return b


def run(ctx):
    from .. import frame
    _roots = [b for b in ctx.facts.bodies if ctx.facts.is_hand_written(b) and b['def_kind'] in ('Fn', 'AssocFn') and strip_generics(b['path']).startswith(('distributions::', '<distributions::'))
              and 'Categorical' not in b['path'] and '::tests::' not in b['path']]
    narrowing_budget(ctx, 'C15', 'distributions (densities, gradients, proposal)', _roots, {}, why='densities and gradients are computed in the element type of the caller; a conversion to a fixed narrower float type (or an f64 -> element-type read-back) on this path changes values for wider element types / back ends', sp=None)
    frame.shadowing(ctx, 'C15', [D + x for x in ('Gaussian2D', 'DiffableGaussian2D', 'IsotropicGaussian', 'Rosenbrock2D', 'RosenbrockND')])
    frame.no_override(ctx, 'C15', D + 'GradientTarget', 'unnorm_logp_and_grad',
                      why='NUTS obtains value and gradient through this provided method; an implementor that overrides it substitutes its own (unanalysed) gradient')
    frame.check_frame(ctx, 'C15', D + 'IsotropicGaussian', {'std': {D + 'IsotropicGaussian::new'}, 'rng': {D + 'IsotropicGaussian::new', '<distributions::IsotropicGaussian<T> as distributions::Proposal<T, T>>::sample', '<distributions::IsotropicGaussian<T> as distributions::Proposal<T, T>>::set_seed'}},
                      why='the proposal density uses the same std the noise was drawn with: std is fixed at construction')
    gaussian2d(ctx)
    diffable(ctx)
    rosenbrock(ctx)
    gradient(ctx)
    isotropic(ctx)


def gaussian2d(ctx):
    cov, mean, pos = selff('cov'), selff('mean'), S('position')

    def c(i, j):
        return index_term(cov, T.tup(N(i), N(j)))
    a, b_, c_, d = c(0, 0), c(0, 1), c(1, 0), c(1, 1)
    det = T.sub(T.mul(a, d), T.mul(b_, c_))
    diff = T.sub(pos, mean)
    adj = T.app('array', T.app('array', d, T.neg(b_)), T.app('array', T.neg(c_), a))
    inv = T.div(adj, det)
    quad = [T.app('dot', T.app('dot', diff, inv), diff), T.app('dot', diff, T.app('dot', inv, diff))]
    A1 = '<Gaussian2D as Normalized>::logp'
    A2 = '<Gaussian2D as Target>::unnorm_logp'
    b1 = need(ctx, 'C15.g2.logp', A1, name='logp', trait=D + 'Normalized', self_head=D + 'Gaussian2D')
    b2 = need(ctx, 'C15.g2.unnorm', A2, name='unnorm_logp', trait=D + 'Target', self_head=D + 'Gaussian2D')
    lp = un = None
    if b2 is not None:
        un = ctx.evaluate(b2, opts=GC).ret_term
        ctx.eq('C15.g2.unnorm', A2, 'value', un, T.mul(T.neg(HALF), quad[0]), alts=[T.mul(T.neg(HALF), quad[1])],
               why='unnormalised 2-D Gaussian log-density: -1/2 d^T Sigma^-1 d with Sigma^-1 = adj(Sigma)/det', sp=b2['sp'])
    if b1 is not None:
        lp = ctx.evaluate(b1, opts=GC).ret_term
        exps = []
        for qf in quad:
            for ld in (T.app('ln', T.app('abs', det)), T.app('ln', det)):
                exps.append(T.sum_terms([T.neg(T.app('ln', T.mul(N(2), PI))), T.mul(T.neg(HALF), ld), T.mul(T.neg(HALF), qf)]))
        ctx.eq('C15.g2.logp', A1, 'value', lp, exps[0], alts=exps[1:],
               why='normalised 2-D Gaussian log-density: -ln(2 pi) - 1/2 ln|det Sigma| - 1/2 d^T Sigma^-1 d', sp=b1['sp'])
    if lp is not None and un is not None:
        dconst = T.sub(lp, un)
        tainted = contains(dconst, pos)
        ctx.check('C15.g2.const_diff_untainted', A1, 'logp-unnorm_logp', not tainted, expected='a term without dependence on `position`',
                  found=show(dconst), why='normalised and unnormalised forms differ by a constant', sp=b1['sp'])


def diffable(ctx):
    DG = D + 'DiffableGaussian2D'
    A = 'DiffableGaussian2D::new'
    b = need(ctx, 'C15.dg.inv', A, name='new', self_head=DG, container='inherent')
    if b is not None:
        ret = ctx.evaluate(b).ret_term
        cov = S('cov')

        def c(i, j):
            return index_term(index_term(cov, N(i)), N(j))
        det = T.sub(T.mul(c(0, 0), c(1, 1)), T.mul(c(0, 1), c(1, 0)))
        inv = T.app('array', T.app('array', T.div(c(1, 1), det), T.div(T.neg(c(0, 1)), det)),
                    T.app('array', T.div(T.neg(c(1, 0)), det), T.div(c(0, 0), det)))
        ctx.eq('C15.dg.inv', A, 'inv_cov', fld(ret, 'inv_cov'), inv, why='inverse of a 2x2 matrix: adj/det, entries in place', sp=b['sp'])
        nc = T.sub(T.neg(T.app('ln', T.mul(N(2), PI))), T.mul(HALF, T.app('ln', det)))
        ctx.eq('C15.dg.norm_const', A, 'norm_const', fld(ret, 'norm_const'), nc, why='-(1/2)(2 ln(2 pi) + ln det Sigma)', sp=b['sp'])
        ctx.eq('C15.dg.logdet', A, 'logdet_cov', fld(ret, 'logdet_cov'), T.app('ln', det), why='log-determinant of the covariance', sp=b['sp'])
        ctx.eq('C15.dg.fields', A, 'mean,cov', T.tup(fld(ret, 'mean'), fld(ret, 'cov')), T.tup(S('mean'), cov), why='mean and covariance stored as given', sp=b['sp'])
    nc = selff('norm_const')
    ic = selff('inv_cov')
    m = selff('mean')
    # ([[s[0][0], s[0][1]], [s[1][0], s[1][1]]] rebuilt element by element from a [[T; 2]; 2] IS that array: the evaluator eta-reduces it)
    sig = ic
    mrow = m
    forms = {}

    def canon_arr(t):
        """the 2-vector mean and the 2x2 inverse covariance, however the tensor literal is spelt: the fixed-size fields themselves,
        rebuilt element by element ([m[0], m[1]], [[s[0][0], s[0][1]], [s[1][0], s[1][1]]]), as a 1 x 2 row ([[m0, m1]]) or as a flat
        row-major list reshaped to 2 x 2 (shape plumbing is erased)"""
        e = lambda x, i: index_term(x, N(i))
        rows = [T.app('array', e(e(ic, r_), 0), e(e(ic, r_), 1)) for r_ in (0, 1)]
        table = [
            (T.app('array', e(e(ic, 0), 0), e(e(ic, 0), 1), e(e(ic, 1), 0), e(e(ic, 1), 1)), ic),
            (T.app('array', rows[0], rows[1]), ic), (T.app('array', e(ic, 0), e(ic, 1)), ic),
            (T.app('array', T.app('array', e(m, 0), e(m, 1))), m), (T.app('array', e(m, 0), e(m, 1)), m), (T.app('array', m), m),
        ]
        cur = t
        for _ in range(4):
            mp = {a_: b_ for a_, b_ in table if contains(cur, a_)}
            if not mp:
                break
            cur = T.subst(cur, mp)
        return cur
    A1 = '<DiffableGaussian2D as BatchedGradientTarget>::unnorm_logp_batch'
    b1 = need(ctx, 'C15.dg.batch', A1, name='unnorm_logp_batch', trait=D + 'BatchedGradientTarget', self_head=DG)
    if b1 is not None:
        found = canon_arr(erase_shapes(ctx.evaluate(b1, opts=GC).ret_term))
        X = S('positions')
        delta = T.sub(X, mrow)
        exp = T.sub(nc, T.mul(HALF, T.app('sum_dim', T.mul(T.app('matmul', delta, sig), delta), N(1))))
        ctx.eq('C15.dg.batch', A1, 'value', found, exp, why='row-wise norm_const - 1/2 sum_j (delta Sigma^-1)_j delta_j, Sigma^-1 row-major, delta = x - mean', sp=b1['sp'])
        forms['batch'] = T.subst(found, {X: S('X')})
    A2 = '<DiffableGaussian2D as GradientTarget>::unnorm_logp'
    b2 = need(ctx, 'C15.dg.single', A2, name='unnorm_logp', trait=D + 'GradientTarget', self_head=DG)
    if b2 is not None:
        found = canon_arr(erase_shapes(ctx.evaluate(b2, opts=GC).ret_term))
        X = S('position')
        delta = T.sub(X, mrow)
        exp = T.sub(nc, T.mul(HALF, T.app('sum', T.mul(T.app('matmul', delta, sig), delta))))
        ctx.eq('C15.dg.single', A2, 'value', found, exp, why='norm_const - 1/2 sum_j (delta Sigma^-1)_j delta_j', sp=b2['sp'])
        forms['single'] = T.subst(found, {X: S('X')})
    if len(forms) == 2:
        def rowsum(t):
            m_ = {}
            for x in T.subterms(t):
                if T.is_app(x, 'sum_dim') and x[2][1] is N(1):
                    m_[x] = T.app('rowsum', x[2][0])
                elif T.is_app(x, 'sum'):
                    m_[x] = T.app('rowsum', x[2][0])
            return T.subst(t, m_)
        ctx.eq('C15.dg.sibling', A1 + ' ~ ' + A2, 'agreement', rowsum(forms['batch']), rowsum(forms['single']),
               why='batched and single-point evaluation agree row by row', sp=b1['sp'])


def rosenbrock(ctx):
    a, b_ = selff('a'), selff('b')

    def ros2(x, y):
        return T.neg(T.add(T.powi(T.sub(a, x), 2), T.mul(b_, T.powi(T.sub(y, T.powi(x, 2)), 2))))
    R2 = D + 'Rosenbrock2D'
    A1 = '<Rosenbrock2D as BatchedGradientTarget>::unnorm_logp_batch'
    b1 = need(ctx, 'C15.ros.2d_batch', A1, name='unnorm_logp_batch', trait=D + 'BatchedGradientTarget', self_head=R2)
    if b1 is not None:
        X = S('positions')
        n = index_term(T.app('dims', X), N(0))

        def col(lo, hi):
            return T.app('slice', X, T.app('array', T.app('range', N(0), n), T.app('range', lo, hi)))
        found = erase_shapes(ctx.evaluate(b1, opts=GC).ret_term)
        ctx.eq('C15.ros.2d_batch', A1, 'value', found, ros2(col(N(0), N(1)), col(N(1), N(2))),
               why='-((a - x0)^2 + b (x1 - x0^2)^2) per row, x0/x1 = columns 0/1', sp=b1['sp'])
    A2 = '<Rosenbrock2D as GradientTarget>::unnorm_logp'
    b2 = need(ctx, 'C15.ros.2d_single', A2, name='unnorm_logp', trait=D + 'GradientTarget', self_head=R2)
    if b2 is not None:
        X = S('position')
        found = erase_shapes(ctx.evaluate(b2, opts=GC).ret_term)
        ctx.eq('C15.ros.2d_single', A2, 'value', found, ros2(T.app('slice', X, T.app('range', N(0), N(1))), T.app('slice', X, T.app('range', N(1), N(2)))),
               why='-((a - x0)^2 + b (x1 - x0^2)^2)', sp=b2['sp'])
    A3 = '<RosenbrockND as BatchedGradientTarget>::unnorm_logp_batch'
    b3 = need(ctx, 'C15.ros.nd', A3, name='unnorm_logp_batch', trait=D + 'BatchedGradientTarget', self_head=D + 'RosenbrockND')
    if b3 is not None:
        X = S('positions')
        k = index_term(T.app('dims', X), N(0))
        n = index_term(T.app('dims', X), N(1))
        low = T.app('slice', X, T.app('array', T.app('range', N(0), k), T.app('range', N(0), T.sub(n, T.ONE))))
        high = T.app('slice', X, T.app('array', T.app('range', N(0), k), T.app('range', N(1), n)))
        body = T.add(T.mul(N(100), T.powi(T.sub(high, T.powi(low, 2)), 2)), T.powi(T.sub(T.ONE, low), 2))
        found = erase_shapes(ctx.evaluate(b3, opts=GC).ret_term)
        ctx.eq('C15.ros.nd', A3, 'value', found, T.neg(T.app('sum_dim', body, N(1))),
               why='-sum_i [100 (x_{i+1} - x_i^2)^2 + (1 - x_i)^2], reduced along the coordinate axis (dim 1)', sp=b3['sp'])


def gradient(ctx):
    A = 'GradientTarget::unnorm_logp_and_grad (default)'
    b = need(ctx, 'C15.grad', A, name='unnorm_logp_and_grad', trait=D + 'GradientTarget', container='trait')
    if b is None:
        return
    ev = ctx.evaluate(b, opts=GC)
    pos = S('position')
    leafs = [x for x in T.subterms(ev.ret_term) if T.is_app(x) and x[1].startswith('leaf#')]
    leaf = leafs[0] if leafs and leafs[0] is T.app(leafs[0][1], T.app('detach', pos)) else T.app('leaf#?', T.app('detach', pos))
    ulp = T.app(D + 'GradientTarget::unnorm_logp', S('self'), leaf)
    ctx.eq('C15.grad', A, 'value', ev.ret_term, T.tup(ulp, T.app('from_inner', T.app('grad', ulp, leaf))),
           why='returns (logp(x), d logp / d x): the density is evaluated on a fresh leaf (detached copy of the position, gradient required) and the gradient is that of the very value returned, '
               'with respect to that leaf; no other graph cut on the path', sp=b['sp'])
    wiring = grad_wiring_problems([ev.ret_term])
    ctx.check('C15.grad.wiring', A, 'autodiff', not wiring, expected='gradient read from the require_grad leaf the density was evaluated on, no graph cut in between', found='; '.join(wiring) or 'wired', sp=b['sp'],
              why='the gradient handed to HMC/NUTS must be the true gradient of the returned log-density')
    calls = ev.events(lambda e: e.key == D + 'GradientTarget::unnorm_logp')
    ctx.check('C15.grad.once', A, 'evaluations', len(calls) == 1, expected='density evaluated once', found=str(len(calls)), sp=b['sp'],
              why='value and gradient must come from the same evaluation')


def isotropic(ctx):
    ISO = D + 'IsotropicGaussian'
    std = selff('std')
    # sample
    A = '<IsotropicGaussian as Proposal>::sample'
    b = need(ctx, 'C15.iso.sample', A, name='sample', trait=D + 'Proposal', self_head=ISO)
    gen_root = None
    if b is not None:
        ev = ctx.evaluate(b)
        cur = S('current')
        draws = ev.events(lambda e: e.op == 'draw')
        if len(draws) == 1:
            d = draws[0]
            gen_root = root_place(d.args[0])
            k = S('k#a')
            noise = T.app('nth', d.res, k)
            exp = mk_comp(T.app('len', cur), k, T.add(index_term(cur, k), noise))
            okdist = d.args[1] is T.app('Normal', T.ZERO, std) and d.draw_kind == 'sample_iter'
            ctx.eq('C15.iso.sample', A, 'value', ev.ret_term, exp, why='candidate_i = current_i + noise_i, one noise value per coordinate', sp=b['sp'])
            ctx.check('C15.iso.sample.dist', A, 'noise', okdist and gen_root == 'self.rng', expected='i.i.d. Normal(0, self.std) from self.rng',
                      found='%s from %s' % (show(d.args[1]), gen_root), why='noise is N(0, std^2) per coordinate from the proposal\'s own generator', sp=d.sp)
        else:
            ctx.bad('C15.iso.sample', A, 'value', expected='one noise stream', found='%d draw sites' % len(draws), sp=b['sp'], why='one Normal(0,std) stream')
    # logp
    A = '<IsotropicGaussian as Proposal>::logp'
    b = need(ctx, 'C15.iso.logp_quad', A, name='logp', trait=D + 'Proposal', self_head=ISO)
    if b is not None:
        found = ctx.evaluate(b).ret_term
        f, t = S('from'), S('to')
        var = T.powi(std, 2)
        ns = [T.app('min', *sorted([T.app('len', f), T.app('len', t)], key=T.key)), T.app('len', f), T.app('len', t)]
        ds = [T.app('len', f), T.app('len', t)]
        quad_ok = const_ok = False
        # split found into sum part and the rest
        sums = [x for x in apps(found, 'sum')]
        k = S('k#a')
        q_exp = [T.app('sum', mk_comp(n, k, T.div(T.neg(T.powi(T.sub(index_term(t, k), index_term(f, k)), 2)), T.mul(N(2), var)))) for n in ns]
        qpart = [s for s in sums if any(s is q for q in q_exp)]
        if len(sums) == 1 and qpart:
            quad_ok = True
            rest = T.sub(found, qpart[0])
        else:
            rest = found
        ctx.check('C15.iso.logp_quad', A, 'quadratic', quad_ok, expected=show(q_exp[0]), found=show(sums[0]) if sums else show(found),
                  why='-sum_i (to_i - from_i)^2 / (2 sigma^2)', sp=b['sp'])
        c_exp = [T.mul(T.mul(T.neg(d_), HALF), T.app('ln', T.mul(T.mul(N(2), PI), var))) for d_ in ds]
        ctx.eq('C15.iso.logp_const', A, 'const', rest, c_exp[0], alts=c_exp[1:], rule='normaliser',
               why='normalising constant of N(from, sigma^2 I_d): -(d/2) ln(2 pi sigma^2)', sp=b['sp'])
        # symmetry is stated for vectors of one common dimension d
        dsym = S('d')
        samelen = T.subst(found, {ns[0]: dsym, ns[1]: dsym, ns[2]: dsym})
        swapped = T.subst(samelen, {f: t, t: f})
        ctx.eq('C15.iso.symmetric', A, 'from<->to', swapped, samelen, why='the isotropic Gaussian proposal density is symmetric in its arguments (equal dimensions)', sp=b['sp'])
    # set_seed
    A = '<IsotropicGaussian as Proposal>::set_seed'
    b = need(ctx, 'C15.iso.set_seed', A, name='set_seed', trait=D + 'Proposal', self_head=ISO)
    if b is not None:
        found = ctx.evaluate(b).ret_term
        exp = T.app('with', S('self'), T.app('set:rng', T.app('seed_from_u64', S('seed'))))
        ctx.eq('C15.iso.set_seed', A, 'value', found, exp, why='set_seed re-seeds (only) the generator from the given seed', sp=b['sp'])
        ctx.check('C15.iso.set_seed.same_gen', A, 'generator', gen_root == 'self.rng', expected='sample draws from the field that set_seed overwrites (self.rng)',
                  found=str(gen_root), why='set_seed makes the draws reproducible only if it seeds the generator sample consumes', sp=b['sp'])
    # unnorm_logp
    A = '<IsotropicGaussian as Target>::unnorm_logp'
    b = need(ctx, 'C15.iso.unnorm', A, name='unnorm_logp', trait=D + 'Target', self_head=ISO)
    if b is not None:
        found = ctx.evaluate(b).ret_term
        p = S('position')
        k = S('k#a')
        exp = T.div(T.mul(T.neg(HALF), T.app('sum', mk_comp(T.app('len', p), k, T.powi(index_term(p, k), 2)))), T.powi(std, 2))
        ctx.eq('C15.iso.unnorm', A, 'value', found, exp, why='-1/2 sum_i x_i^2 / sigma^2', sp=b['sp'])
