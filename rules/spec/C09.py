"""C09 — run(): shape, chain order, burn-in discard, continuation (DESIGN.md section 4/C09, Appendix A.C09)."""
from ..speclib import *

TITLE = 'run(n_collect, n_discard): exactly n_collect+n_discard transitions, row k = state after n_discard+k+1 (NUTS: n_discard+k), chain order kept, stepping in place'
EXPLANATION = ('Loop summaries of every run loop compared with their specification: core::run_chain (trip count n_collect+n_discard, one step per iteration before '
               'the store, store guard k >= n_discard, row k - n_discard, stored value = state returned by that step, output allocated (n_collect, dim)); '
               'ChainRunner::run (in-place, order-preserving map over the chains, arguments forwarded, stack on axis 0); HMC::run (n_discard steps, then n_collect '
               'iterations with one step each, row k, buffer [n_collect, n_chains, dim] permuted [1,0,2]); NUTSChain::run (row 0 = position at entry, loop 1..n_collect+n_discard, '
               'guard m >= n_discard, row m - n_discard => row r after n_discard + r transitions); NUTS::run (in-place order-preserving map, stack on dim 0). '
               'Step receivers are reached through &mut places without an intervening clone (continuation).')
TECHNIQUE = 'loop summaries (trip counts, guards, affine row indices, carried places) + value-flow normal forms'
STEP = 'core::MarkovChain::step'


def run_chain_loop(ctx, pfx, A, ev, chain0, nc, nd, sp, inlined_chain=None, out_pick=None, dim_terms=None, allow_error_exits=False):
    """obligations on a run_chain-shaped loop inside evaluation ev. chain0 = term of the chain place before the loop"""
    steps = ev.events(lambda e: e.key == STEP)
    loops = [ls for ls in ev.vf.loops if ls.kind == 'for' and any(e in ls.events for e in steps) and (not ls.ctx or inlined_chain is not None)]
    loops = [ls for ls in loops if not any(e.loops and e.loops[-1] != ls.uid for e in steps if e in ls.events)]
    if len(loops) == 2 and loops[0].ctx == loops[1].ctx:
        r2 = two_phase(ctx, pfx, A, ev, chain0, nc, nd, sp, loops, steps, out_pick, dim_terms, allow_error_exits, inlined_chain)
        if r2 is not None:
            return r2
    if len(loops) != 1:
        for o in ('count', 'step_once_before_store', 'guard_row_value', 'alloc'):
            ctx.unknown(pfx + '.' + o, A, o, why='expected exactly one counted loop that steps the chain (found %d)' % len(loops), sp=sp)
        return None
    ls = loops[0]
    it = ls.var
    exits_ok = not ls.exits or (allow_error_exits and all(e[0] == 'return' and T.is_app(e[2], 'is:Err') for e in ls.exits))
    ctx.check(pfx + '.count', A, 'count', ls.n is T.add(nc, nd) and exits_ok and ev.t(ls.elem) is it,
              expected='for k in 0..n_collect+n_discard, no other exit', found='n=%s, %d exits, elem=%s' % (show(ls.n), len(ls.exits), show(ev.t(ls.elem))), sp=ls.sp,
              why='exactly n_collect + n_discard transitions, no transition more than needed')
    insteps = [e for e in steps if e in ls.events]
    chain_keys = [k for k in ls.lh if isinstance(ls.next.get(k), T.Tm) and any(contains(ls.next[k], T.app('post0', e.res)) for e in insteps)]
    ok_once = len(insteps) == 1 and not insteps[0].pc and len(chain_keys) == 1
    stepres = insteps[0].res if insteps else None
    if ok_once:
        ck = chain_keys[0]
        recv = insteps[0].args[0]
        # receiver is the live (loop-carried) chain, post-state stored back into the same place
        if inlined_chain is None:
            ok_once = recv is ls.lh[ck] and ls.next[ck] is T.app('post0', stepres)
        else:
            ok_once = inlined_chain(ls, ck, recv, stepres)
    ctx.check(pfx + '.step_once_before_store', A, 'step', ok_once, expected='one unconditional chain.step() per iteration on the live chain (in place)',
              found='%d step call(s) in the loop; conditions %s' % (len(insteps), [show(c) for e in insteps for c in e.pc]), sp=ls.sp,
              why='each iteration performs exactly one transition of the chain itself')
    outs = [k for k in ls.lh if k not in chain_keys]
    if out_pick is not None:
        outs = [k for k in outs if out_pick(ls, k)]
    if len(outs) != 1 or stepres is None:
        ctx.unknown(pfx + '.guard_row_value', A, 'store', why='expected one output buffer carried through the loop (found %d)' % len(outs), sp=ls.sp)
        ctx.unknown(pfx + '.alloc', A, 'alloc', why='output buffer not identified', sp=ls.sp)
        return None
    ok_ = outs[0]
    lh = ls.lh[ok_]
    row = T.app('row_mut', T.sub(it, nd))
    vals = [T.app('from_shape', T.app('len', stepres), stepres), stepres]
    exps = [T.ite(T.icmp('ge', it, nd), T.app('upd', lh, row, v), lh) for v in vals]
    ctx.eq(pfx + '.guard_row_value', A, 'store', ls.next[ok_], exps[0], alts=exps[1:], sp=ls.sp,
           why='store iff k >= n_discard, at row k - n_discard, the state returned by this iteration\'s step => row r holds the state after n_discard + r + 1 transitions')
    dimt = dim_terms or [T.app('len', T.app('core::MarkovChain::current_state', chain0))]
    ctx.eq(pfx + '.alloc', A, 'alloc', ls.init[ok_], T.app('zeros', T.tup(nc, dimt[0])), sp=sp, why='output has n_collect rows of the state dimension')
    return ls, ok_


def two_phase(ctx, pfx, A, ev, chain0, nc, nd, sp, loops, steps, out_pick, dim_terms, allow_error_exits, inlined_chain=None):
    """the same run written as a burn-in loop (n_discard steps, nothing stored) followed by a collection loop (n_collect steps, row k
    stored at iteration k): same transitions, same rows.  Returns (collection loop, out key) or None when the two loops are not that."""
    l1, l2 = sorted(loops, key=lambda l_: l_.uid)

    def once(ls):
        ins = [e for e in steps if e in ls.events]
        cks = [k for k in ls.lh if isinstance(ls.next.get(k), T.Tm) and any(contains(ls.next[k], T.app('post0', e.res)) for e in ins)]
        ok = len(ins) == 1 and not ins[0].pc and len(cks) == 1 and ((ins[0].args[0] is ls.lh[cks[0]] and ls.next[cks[0]] is T.app('post0', ins[0].res)) if inlined_chain is None
                                                                else inlined_chain(ls, cks[0], ins[0].args[0], ins[0].res))
        return ok, (cks[0] if cks else None), (ins[0].res if ins else None)
    ok1, ck1, _ = once(l1)
    ok2, ck2, res2 = once(l2)
    if not (ok1 and ok2) or keyrepr(ck1) != keyrepr(ck2) or l2.init[ck2] is not l1.lx[ck1]:
        return None
    ex_ok = lambda ls: not ls.exits or (allow_error_exits and all(e[0] == 'return' and T.is_app(e[2], 'is:Err') for e in ls.exits))
    others1 = [k for k in carried_keys(l1) if k is not ck1]
    ctx.check(pfx + '.count', A, 'count', l1.n is nd and l2.n is nc and ex_ok(l1) and ex_ok(l2) and not others1,
              expected='n_discard burn-in iterations (nothing stored) then n_collect collecting iterations, no other exit', found='n=%s then n=%s; burn-in loop also carries %s' % (show(l1.n), show(l2.n), [keyrepr(k) for k in others1]), sp=l1.sp,
              why='exactly n_collect + n_discard transitions, no transition more than needed')
    ctx.ok(pfx + '.step_once_before_store', A, 'step', expected='one unconditional chain.step() per iteration of either loop on the live chain (in place), the second loop continuing from the first', found='two-phase form', sp=l2.sp,
           why='each iteration performs exactly one transition of the chain itself')
    outs = [k for k in carried_keys(l2) if k is not ck2]
    if out_pick is not None:
        outs = [k for k in outs if out_pick(l2, k)]
    if len(outs) != 1:
        ctx.unknown(pfx + '.guard_row_value', A, 'store', why='expected one output buffer carried through the collection loop (found %d)' % len(outs), sp=l2.sp)
        ctx.unknown(pfx + '.alloc', A, 'alloc', why='output buffer not identified', sp=l2.sp)
        return None
    ok_ = outs[0]
    lh = l2.lh[ok_]
    vals2 = (T.app('from_shape', T.app('len', res2), res2), res2)
    try:
        e2 = ev.t(l2.elem) if l2.elem is not None and not isinstance(l2.elem, (Ref, Tup)) else None
    except Exception:
        e2 = None
    rowi = T.sub(e2, nd) if e2 is not None else l2.var      # element nd + k stored at row k, or element k at row k
    exps_k = [T.app('upd', lh, T.app('row_mut', l2.var), v) for v in vals2]                 # row k written at iteration k (whatever the loop walks)
    exps_i = [T.app('upd', lh, T.app('row_mut', rowi), v) for v in vals2]
    row_is_k = rowi is l2.var or e2 is l2.var
    ctx.check(pfx + '.guard_row_value', A, 'store', any(l2.next[ok_] is e for e in exps_k) or (any(l2.next[ok_] is e for e in exps_i) and row_is_k), expected='collection iteration k stores the state returned by its step at row k (unconditionally)',
              found=show(l2.next[ok_])[:300], sp=l2.sp, why='row r holds the state after n_discard + r + 1 transitions')
    dimt = dim_terms or [T.app('len', T.app('core::MarkovChain::current_state', chain0))]
    ctx.eq(pfx + '.alloc', A, 'alloc', l2.init[ok_], T.app('zeros', T.tup(nc, dimt[0])), sp=sp, why='output has n_collect rows of the state dimension')
    return l2, ok_


def run(ctx):
    nc, nd = S('n_collect'), S('n_discard')
    # ------------------------------------------------------------ core::run_chain
    A = 'core::run_chain'
    b = ctx.anchor(A, path='core::run_chain')
    if b is None:
        ctx.unknown('C09.run_chain', A, 'anchor', why='anchor not found')
    else:
        ev = ctx.evaluate(b)
        r = run_chain_loop(ctx, 'C09.run_chain', A, ev, S('chain'), nc, nd, b['sp'])
        if r:
            ls, ok_ = r
            ctx.eq('C09.run_chain.ret', A, 'return', ev.ret_term, ls.lx[ok_], why='returns the filled buffer', sp=b['sp'])
        api = sorted(set(e.key for e in ev.vf.events if e.key and e.key.startswith('core::MarkovChain::')))
        ctx.check('C09.chain_api', A, 'chain-api', api == ['core::MarkovChain::current_state', STEP], expected='only step / current_state are invoked on the chain', found=str(api),
                  why='two consecutive runs equal one longer run: run_chain must not reset or otherwise touch the chain', sp=b['sp'])
    runner_run(ctx, nc, nd)
    hmc_run(ctx, nc, nd)
    nuts_chain_run(ctx, nc, nd)
    nuts_run(ctx, nc, nd)
    constructors(ctx)
    frames(ctx)
    for nm, root, al in (('ChainRunner::run', ctx.anchor('rr', name='run', trait='core::ChainRunner', container='trait'), {}), ('HMC::run', ctx.anchor('hr', name='run', self_head='hmc::HMC', container='inherent'), {}),
                         ('NUTS::run', ctx.anchor('nr', name='run', self_head='nuts::NUTS', container='inherent'), {'numcast': 3})):
        if root is not None:
            narrowing_budget(ctx, 'C09', nm, [root], al, why='returned rows are the chain states in the element type of the chain; a conversion to a fixed narrower float type (or an f64 -> element-type read-back) on this path changes values for wider element types / back ends', sp=root['sp'])


def frames(ctx):
    """what the loop obligations above take for granted: (1) chains_mut is the place self.chains and nothing else, (2) nothing but the
    anchored transition (and the constructors / seeding API) changes sampler state, so a run starts exactly where the previous one
    stopped, (3) `x.step()` / `x.run()` on the concrete types resolve to the analysed functions"""
    from .. import frame
    from . import C01, C02, C03, C05
    acc = [b for b in ctx.facts.bodies if b.get('container') == 'trait_impl' and strip_generics(b.get('trait') or '') == 'core::HasChains' and b.get('name') == 'chains_mut']
    if len(acc) < 2:
        ctx.unknown('C09.accessor', 'core::HasChains::chains_mut', 'impls', why='only %d implementation(s) of HasChains::chains_mut found (2 on the reference tree)' % len(acc))
    for b in acc:
        frame.accessor_pure(ctx, 'C09', b, 'chains')
    cur = [b for b in ctx.facts.bodies if b.get('container') == 'trait_impl' and strip_generics(b.get('trait') or '') == 'core::MarkovChain' and b.get('name') == 'current_state']
    if len(cur) < 2:
        ctx.unknown('C09.accessor', 'core::MarkovChain::current_state', 'impls', why='only %d implementation(s) of MarkovChain::current_state found (2 on the reference tree)' % len(cur))
    for b in cur:
        frame.accessor_pure(ctx, 'C09', b, 'current_state', mut=False)
    for mod in (C01, C02, C03, C05):
        got = ctx.borrow(mod.frame_rules, lambda oid: True)
        if not got:
            ctx.unknown('C09.frame', mod.__name__.rsplit('.', 1)[-1], 'borrowed', why='frame obligations could not be instantiated')


def constructors(ctx):
    """chain c is built from the c-th initial state (row c of every run() belongs to it)"""
    for A, head, param, chain_adt, statef in (('MetropolisHastings::new', 'metropolis_hastings::MetropolisHastings', 'initial_states', 'adt:metropolis_hastings::MHMarkovChain', 'current_state'),
                                               ('GibbsSampler::new', 'gibbs::GibbsSampler', 'initial_states', 'adt:gibbs::GibbsMarkovChain', 'current_state'),
                                               ('NUTS::new', 'nuts::NUTS', 'initial_positions', 'adt:nuts::NUTSChain', 'position')):
        b = ctx.anchor(A, name='new', self_head=head, container='inherent')
        if b is None:
            ctx.unknown('C09.ctor', A, 'anchor', why='anchor not found')
            continue
        ev = ctx.evaluate(b)
        init = S(param)
        loops = [ls for ls in ev.vf.loops if getattr(ls, 'result_term', None) is not None and T.is_app(ls.result_term, chain_adt) and not ls.ctx]
        ok = False
        found = show(fld(ev.ret_term, 'chains'))[:200]
        if len(loops) == 1:
            ls = loops[0]
            st = fld(ls.result_term, statef)
            elem = index_term(init, ls.var)
            okstate = st is elem or (T.is_app(st, 'tensordata') and st[2][0] is elem)
            chains = fld(ev.ret_term, 'chains')
            okorder = contains(chains, mk_comp(ls.n, ls.var, ls.result_term))
            ok = okstate and ls.n is T.app('len', init) and okorder and not ls.exits
        ctx.check('C09.ctor', A, 'chain-order', ok, expected='chains[c] is built from %s[c], for every c, collected in order' % param, found=found, sp=b['sp'],
                  why='row c of the output belongs to the c-th initial state')
    # "the multi-chain NUTS runner returns exactly what its chains return individually": a chain built directly with the same
    # arguments is the reference, so the runner's constructor must hand them on unchanged (decided for C04 as well)
    from . import C04
    got = ctx.borrow(C04.runner_ctor, lambda oid: oid.startswith('C04.fwd.'))
    if not got:
        ctx.unknown('C09.ctor', 'NUTS::new', 'arguments', why='argument-forwarding obligations of the NUTS constructor could not be instantiated')
    A = 'HMC::new'
    b = ctx.anchor(A, name='new', self_head='hmc::HMC', container='inherent')
    if b is None:
        ctx.unknown('C09.ctor', A, 'anchor', why='anchor not found')
        return
    ev = ctx.evaluate(b)
    init = S('initial_positions')
    k = S('k#c')
    n = T.app('len', init)
    exp = T.app('tensordata', T.app('flatten', mk_comp(n, k, index_term(init, k))), T.app('array', n, T.app('len', index_term(init, N(0)))))
    ctx.eq('C09.ctor', A, 'chain-order', fld(ev.ret_term, 'positions'), exp, sp=b['sp'],
           why='positions row c = initial_positions[c] (row-major [n_chains, dim] tensor from the chain-major flattening)')


def runner_run(ctx, nc, nd):
    # ------------------------------------------------------------ ChainRunner::run
    A = 'ChainRunner::run'
    b = ctx.anchor(A, name='run', trait='core::ChainRunner', container='trait')
    if b is None:
        ctx.unknown('C09.collect.runner_run', A, 'anchor', why='anchor not found')
    else:
        ev = ctx.evaluate(b)
        forced = [ls for ls in ev.vf.loops if ls.kind == 'forced' and not ls.ctx and ls.lh]
        if len(forced) != 1:
            ctx.unknown('C09.collect.runner_run', A, 'map', why='expected one effectful map over the chains (found %d)' % len(forced), sp=b['sp'])
        else:
            fl = forced[0]
            ck = list(fl.lh)[0]
            chains0 = fl.init[ck]
            inplace = keyrepr(ck) == 'chains_mut(self)' and fl.n is T.app('len', chains0) and fl.seq_desc == 'map(iter(&chains_mut(self)))'

            def inl(ls, k, recv, stepres):
                return k == ck and recv is index_term(ls.lh[k], fl.var) and ls.next[k] is T.app('upd', ls.lh[k], fl.var, T.app('post0', stepres))
            r = run_chain_loop(ctx, 'C09.runner_run.inlined', A, ev, index_term(fl.lh[ck], fl.var), nc, nd, b['sp'], inlined_chain=inl)
            res_ok = False
            if r:
                ils, ok_ = r
                res_ok = getattr(fl, 'result_term', None) is ils.lx[ok_]
            R = T.app('eff', mk_comp(fl.n, fl.var, fl.result_term), S('loop%d' % fl.uid)) if getattr(fl, 'result_term', None) is not None else None
            k2 = S('k#v')
            exp = T.app('stack', AX(0), mk_comp(seq_len(R), k2, index_term(R, k2))) if R is not None else None
            found = assume_ok(ev.ret_term)
            ctx.check('C09.collect.runner_run', A, 'collect', inplace and res_ok and exp is not None and found is exp,
                      expected='results of run_chain(chain_c, n_collect, n_discard) for c = 0..n_chains in chain order, stacked on axis 0; chains stepped in place through chains_mut()',
                      found='in-place=%s per-chain-result-is-buffer=%s ret=%s' % (inplace, res_ok, show(found)), sp=b['sp'],
                      why='row c of the output belongs to the c-th chain; the sampler is left at the last returned state')


def hmc_run(ctx, nc, nd):
    A = 'HMC::run'
    b = ctx.anchor(A, name='run', self_head='hmc::HMC', container='inherent')
    bs = ctx.anchor('HMC::step', name='step', self_head='hmc::HMC', container='inherent')
    if b is None or bs is None:
        ctx.unknown('C09.hmc_run', A, 'anchor', why='anchor not found')
        return
    stepkey = strip_generics(bs['path'])
    ev = ctx.evaluate(b, no_inline=(stepkey,))
    sp = b['sp']
    steps = ev.events(lambda e: e.key == 'hmc::HMC::step')
    loops = [ls for ls in ev.vf.loops if ls.kind == 'for' and not ls.ctx]
    if len(loops) != 2 or len(steps) != 2:
        for o in ('discard_count', 'collect_count', 'step_once', 'row', 'permute'):
            ctx.unknown('C09.hmc_run.' + o, A, o, why='expected a discard loop and a collect loop with one step each (found %d loops, %d step sites)' % (len(loops), len(steps)), sp=sp)
        return
    l1, l2 = loops
    selfk = lambda ls: [k for k in ls.lh if keyrepr(k) == 'self']
    ok1 = l1.n is nd and not l1.exits and len(selfk(l1)) == 1 and len(l1.lh) == 1 and l1.next[selfk(l1)[0]] is T.app('post0', T.app('hmc::HMC::step', l1.lh[selfk(l1)[0]])) \
        and l1.init[selfk(l1)[0]] is S('self')
    ctx.check('C09.hmc_run.discard_count', A, 'discard', ok1, expected='n_discard iterations, one step each, nothing stored', found='n=%s carried=%s' % (show(l1.n), [keyrepr(k) for k in l1.lh]), sp=l1.sp,
              why='the first n_discard transitions are discarded')
    it = l2.var
    ok2 = l2.n is nc and not l2.exits
    ctx.check('C09.hmc_run.collect_count', A, 'collect', ok2, expected='n_collect iterations', found='n=%s exits=%d' % (show(l2.n), len(l2.exits)), sp=l2.sp, why='exactly n_collect further transitions')
    sk = selfk(l2)
    okstep = len(sk) == 1 and l2.next[sk[0]] is T.app('post0', T.app('hmc::HMC::step', l2.lh[sk[0]])) and l2.init[sk[0]] is l1.lx.get(selfk(l1)[0] if selfk(l1) else None)
    ctx.check('C09.hmc_run.step_once', A, 'step', okstep, expected='one step per collect iteration on the sampler itself, continuing from the state after the discard loop', found=show(l2.next[sk[0]]) if sk else 'self not carried', sp=l2.sp,
              why='in-place stepping: the sampler is left at the last returned state')
    outs = [k for k in l2.lh if keyrepr(k) != 'self']
    if len(outs) != 1 or not sk:
        ctx.unknown('C09.hmc_run.row', A, 'row', why='output buffer not identified', sp=l2.sp)
        ctx.unknown('C09.hmc_run.permute', A, 'permute', why='output buffer not identified', sp=l2.sp)
        return
    o = outs[0]
    pos0 = fld(S('self'), 'positions')
    n_ch, dim = index_term(T.app('dims', pos0), N(0)), index_term(T.app('dims', pos0), N(1))
    post = T.app('post0', T.app('hmc::HMC::step', l2.lh[sk[0]]))
    exp = T.app('slice_assign', l2.lh[o], T.app('array', T.app('range', it, T.add(it, T.ONE)), T.app('range', N(0), n_ch), T.app('range', N(0), dim)),
                T.app('unsqueeze_dim', fld(post, 'positions'), N(0)))
    ctx.eq('C09.hmc_run.row', A, 'row', l2.next[o], exp, sp=l2.sp, why='iteration k stores the positions AFTER its step at first-axis index k (all chains, all coordinates)')
    alloc = l2.init[o]
    okalloc = T.is_app(alloc, 'empty_t') and alloc[2][0] is T.app('array', nc, n_ch, dim)
    ctx.check('C09.hmc_run.alloc', A, 'alloc', okalloc, expected='buffer [n_collect, n_chains, dim]', found=show(alloc), sp=sp, why='buffer is indexed by step on axis 0')
    ctx.eq('C09.hmc_run.permute', A, 'permute', ev.ret_term, T.app('permute', l2.lx[o], T.app('array', N(1), N(0), N(2))), sp=sp,
           why='[step, chain, dim] buffer is returned as [chain, step, dim]')


def nuts_chain_run(ctx, nc, nd):
    A = 'NUTSChain::run'
    b = ctx.anchor(A, name='run', self_head='nuts::NUTSChain', container='inherent')
    if b is None:
        ctx.unknown('C09.nuts_run', A, 'anchor', why='anchor not found')
        return
    ev = ctx.evaluate(b, no_inline=('nuts::NUTSChain::step', ctx.helper_key('nuts.fre', 'nuts::find_reasonable_epsilon')))
    sp = b['sp']
    steps = ev.events(lambda e: e.key == 'nuts::NUTSChain::step')
    loops = [ls for ls in ev.vf.loops if ls.kind == 'for' and not ls.ctx and any(e in ls.events for e in steps)]      # the loop that steps the chain (wherever it is written)
    if len(loops) == 2 and len(steps) == 2 and nuts_two_phase(ctx, A, ev, sorted(loops, key=lambda l_: l_.uid), steps, nc, nd, sp):
        return
    if len(loops) != 1 or len(steps) != 1:
        for o in ('row0', 'count', 'step_once', 'guard_row_value'):
            ctx.unknown('C09.nuts_run.' + o, A, o, why='expected one run loop with one step (found %d loops, %d step sites)' % (len(loops), len(steps)), sp=sp)
        return
    ls = loops[0]
    it = ls.var
    m = ev.t(ls.elem)
    ctx.check('C09.nuts_run.count', A, 'count', ls.n is T.sub(T.add(nc, nd), T.ONE) and m is T.add(it, T.ONE) and not ls.exits,
              expected='for m in 1..n_collect+n_discard', found='n=%s elem=%s' % (show(ls.n), show(m)), sp=ls.sp, why='n_collect + n_discard - 1 transitions: the first kept draw is the last warm-up state')
    sk = [k for k in ls.lh if keyrepr(k) == 'self']
    okstep = len(sk) == 1 and ls.next[sk[0]] is T.app('post0', T.app('nuts::NUTSChain::step', ls.lh[sk[0]])) and not steps[0].pc
    ctx.check('C09.nuts_run.step_once', A, 'step', okstep, expected='one unconditional self.step() per iteration (in place)', found=show(ls.next[sk[0]]) if sk else 'self not carried', sp=ls.sp,
              why='each iteration performs one transition of the chain itself')
    outs = [k for k in ls.lh if keyrepr(k) != 'self']
    if len(outs) != 1 or not sk:
        ctx.unknown('C09.nuts_run.guard_row_value', A, 'store', why='sample buffer not identified', sp=ls.sp)
        return
    o = outs[0]
    pos0 = fld(S('self'), 'position')
    dim = index_term(T.app('dims', pos0), N(0))
    post = T.app('post0', T.app('nuts::NUTSChain::step', ls.lh[sk[0]]))
    r = T.sub(m, nd)
    exp = T.ite(T.icmp('ge', m, nd), T.app('slice_assign', ls.lh[o], T.app('array', T.app('range', r, T.add(r, T.ONE)), T.app('range', N(0), dim)), T.app('unsqueeze', fld(post, 'position'))), ls.lh[o])
    ctx.eq('C09.nuts_run.guard_row_value', A, 'store', ls.next[o], exp, sp=ls.sp, why='store iff m >= n_discard at row m - n_discard, the position after this iteration\'s step')
    row0 = T.app('slice_assign', T.app('empty_t', T.app('array', nc, dim), S('default:<B as burn::prelude::Backend>::Device')),
                 T.app('array', T.app('range', N(0), N(1)), T.app('range', N(0), dim)), T.app('unsqueeze', pos0))
    ctx.eq('C09.nuts_run.row0', A, 'row0', ls.init[o], row0, sp=sp, why='row 0 is pre-filled with the position at entry (kept only when n_discard = 0, otherwise overwritten at m = n_discard)')
    ctx.eq('C09.nuts_run.ret', A, 'return', ev.ret_term, ls.lx[o], sp=sp, why='returns the filled buffer')
    # n_discard forwarded to the chain (adaptation window) in order
    ctx.check('C09.fwd.nuts_init', A, 'fwd', contains(ev.t(ls.init[sk[0]]), T.app('set:n_discard', nd)) and contains(ev.t(ls.init[sk[0]]), T.app('set:n_collect', nc)),
              expected='init_chain receives (n_collect, n_discard) in this order', found='…', sp=sp, why='swapped arguments change the warm-up length')


def nuts_two_phase(ctx, A, ev, loops, steps, nc, nd, sp):
    """the same run written as a warm-up loop over m in 1..n_discard (steps only) and a collection loop over m in max(n_discard, 1)..
    n_collect + n_discard (step, then store at row m - n_discard): the same transitions and rows as the single loop over
    1..n_collect + n_discard with the store guarded by m >= n_discard (row 0 is the position at entry when n_discard = 0).
    Returns False when the two loops are not of that shape (the caller then reports the single-loop obligations as not established)."""
    l1, l2 = loops
    STEPK = 'nuts::NUTSChain::step'

    def once(ls):
        ins = [e for e in steps if e in ls.events]
        sk = [k for k in ls.lh if keyrepr(k) == 'self']
        ok = len(ins) == 1 and not ins[0].pc and len(sk) == 1 and ls.next[sk[0]] is T.app('post0', T.app(STEPK, ls.lh[sk[0]])) and not ls.exits
        return ok, (sk[0] if sk else None)
    ok1, s1 = once(l1)
    ok2, s2 = once(l2)
    if not (ok1 and ok2) or l2.init[s2] is not l1.lx[s1] or carried_keys(l1) != [s1]:
        return False
    total = T.add(nc, nd)
    start2 = T.app('max', *sorted([nd, T.ONE], key=T.key))
    m2 = ev.t(l2.elem)
    okcount = l1.n is T.sub(nd, T.ONE) and ev.t(l1.elem) is T.add(l1.var, T.ONE) and l2.n is T.sub(total, start2) and m2 is T.add(start2, l2.var)
    ctx.check('C09.nuts_run.count', A, 'count', okcount, expected='for m in 1..n_discard (steps only), then for m in max(n_discard, 1)..n_collect+n_discard',
              found='n=%s from %s; n=%s from %s' % (show(l1.n), show(ev.t(l1.elem)), show(l2.n), show(m2)), sp=l1.sp, why='n_collect + n_discard - 1 transitions: the first kept draw is the last warm-up state')
    ctx.ok('C09.nuts_run.step_once', A, 'step', expected='one unconditional self.step() per iteration of either loop (in place), the second loop continuing from the first', found='two-phase form', sp=l2.sp,
           why='each iteration performs one transition of the chain itself')
    outs = [k for k in carried_keys(l2) if k is not s2]
    if len(outs) != 1:
        ctx.unknown('C09.nuts_run.guard_row_value', A, 'store', why='sample buffer not identified', sp=l2.sp)
        return True
    o = outs[0]
    pos0 = fld(S('self'), 'position')
    dim = index_term(T.app('dims', pos0), N(0))
    post = T.app('post0', T.app(STEPK, l2.lh[s2]))
    r = T.sub(m2, nd)
    exp = T.app('slice_assign', l2.lh[o], T.app('array', T.app('range', r, T.add(r, T.ONE)), T.app('range', N(0), dim)), T.app('unsqueeze', fld(post, 'position')))
    ctx.eq('C09.nuts_run.guard_row_value', A, 'store', l2.next[o], exp, sp=l2.sp, why='every collection iteration m >= n_discard stores at row m - n_discard the position after its step')
    row0 = T.app('slice_assign', T.app('empty_t', T.app('array', nc, dim), S('default:<B as burn::prelude::Backend>::Device')),
                 T.app('array', T.app('range', N(0), N(1)), T.app('range', N(0), dim)), T.app('unsqueeze', pos0))
    ctx.eq('C09.nuts_run.row0', A, 'row0', l2.init[o], row0, sp=sp, why='row 0 is pre-filled with the position at entry (kept only when n_discard = 0, otherwise overwritten at m = n_discard)')
    ctx.eq('C09.nuts_run.ret', A, 'return', ev.ret_term, l2.lx[o], sp=sp, why='returns the filled buffer')
    ctx.check('C09.fwd.nuts_init', A, 'fwd', contains(ev.t(l1.init[s1]), T.app('set:n_discard', nd)) and contains(ev.t(l1.init[s1]), T.app('set:n_collect', nc)),
              expected='init_chain receives (n_collect, n_discard) in this order', found='…', sp=sp, why='swapped arguments change the warm-up length')
    return True


def nuts_run(ctx, nc, nd):
    A = 'NUTS::run'
    b = ctx.anchor(A, name='run', self_head='nuts::NUTS', container='inherent')
    if b is None:
        ctx.unknown('C09.collect.nuts_run', A, 'anchor', why='anchor not found')
        return
    ev = ctx.evaluate(b, no_inline=('nuts::NUTSChain::run',))
    forced = [ls for ls in ev.vf.loops if ls.kind == 'forced' and not ls.ctx and ls.lh]
    ok = False
    found = show(ev.ret_term)
    if len(forced) == 1:
        fl = forced[0]
        ck = list(fl.lh)[0]
        call = T.app('nuts::NUTSChain::run', index_term(fl.lh[ck], fl.var), nc, nd)
        ok = (keyrepr(ck) == 'self.chains' and fl.n is T.app('len', selff('chains')) and fl.result_term is call
              and fl.next[ck] is T.app('upd', fl.lh[ck], fl.var, T.app('post0', call))
              and ev.ret_term is T.app('stack_t', T.app('eff', mk_comp(fl.n, fl.var, call), S('loop%d' % fl.uid)), N(0)))
    ctx.check('C09.collect.nuts_run', A, 'collect', ok, expected='chain_c.run(n_collect, n_discard) for c in chain order (in place), stacked on dim 0', found=found, sp=b['sp'],
              why='the multi-chain runner returns exactly what its chains return individually, in chain order')
