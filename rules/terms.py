"""Term algebra for the value-flow engine (VF).

Terms are immutable nested tuples so that structural equality == normal-form equality:

  ('num', numerator, denominator)       exact rational (ints: cheap to hash)
  ('sym', name)
  ('app', op, (t, ...))                  uninterpreted operator
  ('poly', ((mono, (n, d)), ...))        mono = ((atom, int_exp), ...) sorted ; coeff n/d
  ('cmp', rel, t)                        t rel 0,  rel in gt|ge|eq|ne   (a<b is b-a>0)
  ('not', t) ('and', (t,...)) ('or', (t,...))
  ('ite', c, a, b)
  ('tuple', (t,...))

Normalisation quotients by assoc/commutativity of + and *, a-b=a+(-b), x/c=x*(1/c),
x*x=x^2, distribution of products over sums, mirrored comparisons.  It never moves a
negation through a comparison (NaN polarity is preserved).
"""
from fractions import Fraction
import hashlib


class Tm:
    """hash-consed term node: behaves like the tuple of its parts, O(1) hash / equality"""
    __slots__ = ('parts', 'hash', 'skey')

    def __getitem__(self, i):
        return self.parts[i]

    def __len__(self):
        return len(self.parts)

    def __iter__(self):
        return iter(self.parts)

    def __hash__(self):
        return self.hash

    def __eq__(self, o):
        return self is o

    def __ne__(self, o):
        return self is not o

    def __repr__(self):
        return 'Tm' + repr(self.parts)

    def __bool__(self):
        return True


_TAB = {}


def _digest(x):
    if isinstance(x, Tm):
        return x.skey[-1] if x.skey[0] == 2 else repr(x.skey)
    if isinstance(x, tuple):
        return '(' + ','.join(_digest(y) for y in x) + ')'
    return repr(x)


def mk(*parts):
    t = _TAB.get(parts)
    if t is None:
        t = Tm()
        t.parts = parts
        t.hash = hash(parts)
        k = parts[0]
        if k == 'num':
            t.skey = (0, parts[1] / parts[2], '')
        elif k == 'sym':
            t.skey = (1, 0, parts[1])
        else:
            t.skey = (2, 0, hashlib.blake2b(_digest(parts).encode(), digest_size=10).hexdigest())
        _TAB[parts] = t
    return t


ZERO = mk('num', 0, 1)
ONE = mk('num', 1, 1)


def _mk(q):
    return mk('num', q.numerator, q.denominator)


def numval(t):
    return Fraction(t[1], t[2])
TRUE = mk('sym', 'true')
FALSE = mk('sym', 'false')
UNIT = mk('tuple', ())


def num(x):
    if isinstance(x, Fraction):
        return _mk(x)
    if isinstance(x, int):
        return mk('num', x, 1)
    if isinstance(x, str):
        s = x.replace('_', '')
        for suf in ('f32', 'f64', 'usize', 'isize', 'u64', 'i64', 'u32', 'i32', 'u8', 'i8', 'u16', 'i16', 'u128', 'i128'):
            if s.endswith(suf):
                s = s[: -len(suf)]
                break
        if s.endswith('.'):
            s = s + '0'
        return _mk(Fraction(s))
    raise TypeError(x)


def sym(name):
    return mk('sym', name)


def is_num(t):
    return isinstance(t, Tm) and t[0] == 'num'


def key(t):
    """total structural order key on terms"""
    return t.skey


def _key(t):
    return t.skey


def app(op, *args):
    if op in ('index', 'upd') and len(args) >= 2 and args[1][0] == 'app' and args[1][1] == 'array' and len(args[1][2]) == 1:
        # x[[k]] on a one-dimensional array is x[k]: one spelling
        args = (args[0], args[1][2][0]) + tuple(args[2:])
    if op == 'index' and len(args) == 2 and args[1][0] == 'num' and args[1][2] == 1:
        b_ = args[0]
        if b_[0] == 'app' and b_[1] == 'array' and 0 <= args[1][1] < len(b_[2]):
            return b_[2][args[1][1]]                      # [a, b, c][1] is b
        if b_[0] == 'ite' and all(x[0] == 'app' and x[1] == 'array' and 0 <= args[1][1] < len(x[2]) for x in (b_[2], b_[3])):
            return ite(b_[1], b_[2][2][args[1][1]], b_[3][2][args[1][1]])      # (if c { [a, b] } else { [d, e] })[0] is if c { a } else { d }
    if op == 'push' and len(args) == 2 and args[0][0] == 'app' and args[0][1] == 'array':
        return mk('app', 'array', tuple(args[0][2]) + (args[1],))         # [a, b].push(c) is [a, b, c]
    if op == 'index' and len(args) == 2 and args[1][0] == 'app' and args[1][1] == 'range' and len(args[1][2]) == 2 \
            and args[0][0] == 'app' and args[0][1] == 'index' and len(args[0][2]) == 2 and args[0][2][1][0] == 'app' and args[0][2][1][1] == 'range' and len(args[0][2][1][2]) == 2:
        a = args[0][2][1][2][0]                                           # x[a..b][c..d] is x[a+c..a+d]
        return app('index', args[0][2][0], app('range', add(a, args[1][2][0]), add(a, args[1][2][1])))
    if op == 'index' and len(args) == 2 and not (args[1][0] == 'app' and args[1][1] == 'range') \
            and args[0][0] == 'app' and args[0][1] == 'index' and len(args[0][2]) == 2 and args[0][2][1][0] == 'app' and args[0][2][1][1] == 'range' and len(args[0][2][1][2]) == 2:
        return app('index', args[0][2][0], add(args[0][2][1][2][0], args[1]))        # x[a..b][i] is x[a + i]
    if op == 'concat' and any(a[0] == 'app' and a[1] == 'array' and not a[2] for a in args):
        rest = [a for a in args if not (a[0] == 'app' and a[1] == 'array' and not a[2])]      # [] ++ x = x
        if len(rest) == 1:
            return rest[0]
        if not rest:
            return mk('app', 'array', ())
        args = tuple(rest)
    if op == 'shape' and len(args) == 1 and args[0][0] == 'app' and args[0][1] in ('zeros', 'ones') and len(args[0][2]) == 1 and args[0][2][0][0] == 'tuple':
        return mk('app', 'array', tuple(args[0][2][0][1]))       # zeros((a, b)).shape() is [a, b]
    if op == 'len' and len(args) == 1 and args[0][0] == 'app' and args[0][1] == 'index' and len(args[0][2]) == 2:
        r = args[0][2][1]
        if r[0] == 'app' and r[1] == 'range' and len(r[2]) == 2:
            return sub(r[2][1], r[2][0])        # x[a..b] has b - a elements (or the slicing panicked)
    return mk('app', op, tuple(args))


def tup(*args):
    return mk('tuple', tuple(args))


def proj(t, k):
    if t[0] == 'tuple' and k < len(t[1]):
        return t[1][k]
    if t[0] == 'ite':
        return ite(t[1], proj(t[2], k), proj(t[3], k))
    return app('proj%d' % k, t)


# ---------------------------------------------------------------- polynomials

def _to_poly(t):
    """term -> dict mono -> coeff"""
    k = t[0]
    if k == 'num':
        return {(): Fraction(t[1], t[2])} if t[1] != 0 else {}
    if k == 'poly':
        return {m: Fraction(c[0], c[1]) for m, c in t[1]}
    return {((t, 1),): Fraction(1)}


def _from_poly(d):
    items = [(m, c) for m, c in d.items() if c != 0]
    if not items:
        return ZERO
    if len(items) == 1:
        m, c = items[0]
        if m == ():
            return _mk(c)
        if c == 1 and len(m) == 1 and m[0][1] == 1:
            return m[0][0]
    # k * (if c {a} else {b}) + m with numeric a, b is (if c {k a + m} else {k b + m}): one spelling for `2 * (flag as i8) - 1`
    # and `if flag { 1 } else { -1 }`
    nonconst = [(m, c) for m, c in items if m != ()]
    if len(nonconst) == 1 and len(items) <= 2:
        m, c = nonconst[0]
        if len(m) == 1 and m[0][1] == 1 and m[0][0][0] == 'ite' and m[0][0][2][0] == 'num' and m[0][0][3][0] == 'num':
            t = m[0][0]
            k0 = sum((cc for mm, cc in items if mm == ()), Fraction(0))
            return ite(t[1], _mk(c * numval(t[2]) + k0), _mk(c * numval(t[3]) + k0))
    items.sort(key=lambda mc: (tuple((_key(a), e) for a, e in mc[0]),))
    return mk('poly', tuple((m, (c.numerator, c.denominator)) for m, c in items))


def _mono_mul(m1, m2):
    d = {}
    for a, e in m1:
        d[a] = d.get(a, 0) + e
    for a, e in m2:
        d[a] = d.get(a, 0) + e
    return tuple(sorted(((a, e) for a, e in d.items() if e != 0), key=lambda ae: _key(ae[0])))


def add(a, b):
    d = _to_poly(a)
    for m, c in _to_poly(b).items():
        d[m] = d.get(m, Fraction(0)) + c
    return _from_poly(d)


def neg(a):
    return _from_poly({m: -c for m, c in _to_poly(a).items()})


def sub(a, b):
    return add(a, neg(b))


def mul(a, b):
    pa, pb = _to_poly(a), _to_poly(b)
    if len(pa) * len(pb) > 400:
        return app('mul', *sorted((a, b), key=_key))
    d = {}
    for m1, c1 in pa.items():
        for m2, c2 in pb.items():
            m = _mono_mul(m1, m2)
            d[m] = d.get(m, Fraction(0)) + c1 * c2
    return _from_poly(d)


def scale(a, q):
    return mul(a, _mk(Fraction(q)))


def powi(a, n):
    """integer power"""
    if n == 0:
        return ONE
    if n < 0:
        return div(ONE, powi(a, -n))
    pa = _to_poly(a)
    if len(pa) == 1:
        (m, c), = pa.items()
        return _from_poly({tuple((x, e * n) for x, e in m): c ** n})
    r = ONE
    for _ in range(n):
        r = mul(r, a)
    return r


def div(a, b):
    pb = _to_poly(b)
    if not pb:
        return app('div0', a)
    if len(pb) == 1:
        (m, c), = pb.items()
        inv = _from_poly({tuple((x, -e) for x, e in m): 1 / c})
        return mul(a, inv)
    # general polynomial denominator: normalise leading coefficient to 1 and use an inv atom
    canon = _from_poly(pb)
    lead = Fraction(*canon[1][0][1])
    canon = _from_poly({m: c / lead for m, c in pb.items()})
    inv = app('inv', canon)
    return mul(a, _from_poly({((inv, 1),): 1 / lead}))


def sum_terms(ts):
    r = ZERO
    for t in ts:
        r = add(r, t)
    return r


# ---------------------------------------------------------------- booleans / comparisons

def cmp(rel, a, b):
    """a rel b normalised to (x rel' 0) with rel' in gt, ge, eq, ne"""
    if rel == 'lt':
        return cmp('gt', b, a)
    if rel == 'le':
        return cmp('ge', b, a)
    d = sub(a, b)
    if rel in ('eq', 'ne'):
        p = _to_poly(d)
        if p:
            canon = _from_poly(p)
            if canon[0] == 'poly':
                lead = Fraction(*canon[1][0][1])
            elif canon[0] == 'num':
                lead = numval(canon)
            else:
                lead = Fraction(1)
            if lead < 0:
                d = neg(d)
    if d[0] == 'num':
        v = numval(d)
        res = {'gt': v > 0, 'ge': v >= 0, 'eq': v == 0, 'ne': v != 0}[rel]
        return TRUE if res else FALSE
    if d[0] == 'ite' and d[2][0] == 'num' and d[3][0] == 'num':
        return ite(d[1], cmp(rel, d[2], ZERO), cmp(rel, d[3], ZERO))          # a comparison of a two-valued constant: decided per arm
    return mk('cmp', rel, d)


def lnot(a):
    if a == TRUE:
        return FALSE
    if a == FALSE:
        return TRUE
    if a[0] == 'not':
        return a[1]
    if a[0] == 'cmp' and a[1] == 'eq':
        return mk('cmp', 'ne', a[2])
    if a[0] == 'cmp' and a[1] == 'ne':
        return mk('cmp', 'eq', a[2])
    return mk('not', a)


def _flat(kind, xs):
    out = []
    for x in xs:
        if x[0] == kind:
            out.extend(x[1])
        else:
            out.append(x)
    return out


def land(*xs):
    xs = _flat('and', xs)
    if any(x == FALSE for x in xs):
        return FALSE
    xs = sorted(set(x for x in xs if x != TRUE), key=_key)
    if not xs:
        return TRUE
    if len(xs) == 1:
        return xs[0]
    return mk('and', tuple(xs))


def lor(*xs):
    xs = _flat('or', xs)
    if any(x == TRUE for x in xs):
        return TRUE
    xs = sorted(set(x for x in xs if x != FALSE), key=_key)
    if not xs:
        return FALSE
    if len(xs) == 1:
        return xs[0]
    return mk('or', tuple(xs))


def icmp(rel, a, b):
    """comparison of INTEGER quantities: total order, no NaN, so `a >= b` is exactly `not (a < b)`.  Canonical spelling: only the
    strict form and its negation, so that `if i < d { A } else { B }` and `if i >= d { B } else { A }` have one normal form."""
    if rel == 'ge':
        return lnot(cmp('lt', a, b))
    if rel == 'le':
        return lnot(cmp('gt', a, b))
    return cmp(rel, a, b)


def ite(c, a, b):
    if c == TRUE:
        return a
    if c == FALSE:
        return b
    if a == b:
        return a
    if a == TRUE and b == FALSE:
        return c
    if a == FALSE and b == TRUE:
        return lnot(c)
    # boolean choices with one constant arm are connectives: `if !p { return false } q` is p && q
    if b == FALSE:
        return land(c, a)
    if a == FALSE:
        return land(lnot(c), b)
    if a == TRUE:
        return lor(c, b)
    if b == TRUE:
        return lor(lnot(c), a)
    if c[0] == 'not':
        # boolean negation is exact (also for NaN-false comparisons): ite(!c, a, b) = ite(c, b, a)
        return ite(c[1], b, a)
    if c[0] == 'cmp' and c[1] == 'ne':
        # `!=` is the exact negation of `==` (also with NaN): one spelling of the choice
        return ite(mk('cmp', 'eq', c[2]), b, a)
    # under condition c an inner test of the same condition is decided
    if a[0] == 'ite' and a[1] is c:
        a = a[2]
    if b[0] == 'ite' and b[1] is c:
        b = b[3]
    if a == b:
        return a
    # if a { if b { X } else { Y } } else { Y }  ==  if a && b { X } else { Y }   (conditions are truth values: exact)
    if a[0] == 'ite' and a[3] is b:
        return ite(land(c, a[1]), a[2], b)
    return mk('ite', c, a, b)


# ---------------------------------------------------------------- traversal helpers

def subterms(t, seen=None):
    """all subterms (pre-order), descending into polys"""
    stack = [t]
    while stack:
        x = stack.pop()
        if not isinstance(x, Tm):
            continue
        yield x
        k = x[0]
        if k == 'app':
            stack.extend(x[2])
        elif k == 'poly':
            for m, _c in x[1]:
                for a, _e in m:
                    stack.append(a)
        elif k == 'cmp':
            stack.append(x[2])
        elif k == 'not':
            stack.append(x[1])
        elif k in ('and', 'or', 'tuple'):
            stack.extend(x[1])
        elif k == 'ite':
            stack.extend(x.parts[1:])


def atoms(t, pred):
    out = []
    seen = set()
    for x in subterms(t):
        if x not in seen and pred(x):
            seen.add(x)
            out.append(x)
    return out


def is_app(t, op=None):
    return isinstance(t, Tm) and t[0] == 'app' and (op is None or t[1] == op or (isinstance(op, (list, tuple, set)) and t[1] in op))


def subst(t, mapping):
    """replace subterms according to mapping (term -> term), rebuilding normal forms"""
    memo = {}

    def go(x):
        if x in mapping:
            return mapping[x]
        if x in memo:
            return memo[x]
        k = x[0]
        if k in ('num', 'sym'):
            r = x
        elif k == 'app':
            if x[1] == 'inv' and len(x[2]) == 1:
                r = div(ONE, go(x[2][0]))
            else:
                r = app(x[1], *[go(a) for a in x[2]])           # (through the constructor: its normalisation rules apply to the new arguments)
        elif k == 'poly':
            r = ZERO
            for m, c in x[1]:
                term = mk('num', c[0], c[1])
                for a, e in m:
                    term = mul(term, powi(go(a), e))
                r = add(r, term)
        elif k == 'cmp':
            inner = go(x[2])
            if inner[0] == 'num':
                r = cmp(x[1], inner, ZERO)
            else:
                r = mk('cmp', x[1], inner)
                if x[1] in ('eq', 'ne'):
                    r = cmp(x[1], inner, ZERO)
        elif k == 'not':
            r = lnot(go(x[1]))
        elif k == 'and':
            r = land(*[go(a) for a in x[1]])
        elif k == 'or':
            r = lor(*[go(a) for a in x[1]])
        elif k == 'ite':
            r = ite(go(x[1]), go(x[2]), go(x[3]))
        elif k == 'tuple':
            r = mk('tuple', tuple(go(a) for a in x[1]))
        else:
            r = x
        memo[x] = r
        return r

    return go(t)


# ---------------------------------------------------------------- pretty printer

NAMES = {}   # display abbreviations: term -> short name (set by the spec modules)


def show(t, depth=0):
    if not isinstance(t, Tm):
        return repr(t)
    if depth > 0 or True:
        nm = NAMES.get(t)
        if nm is not None:
            return nm
    k = t[0]
    if k == 'num':
        q = numval(t)
        return str(q.numerator) if q.denominator == 1 else '%d/%d' % (q.numerator, q.denominator)
    if k == 'sym':
        return t[1]
    if depth > 40:
        return '...'
    if k == 'app':
        return '%s(%s)' % (t[1], ', '.join(show(a, depth + 1) for a in t[2]))
    if k == 'poly':
        parts = []
        for m, c in t[1]:
            c = Fraction(*c)
            fs = []
            for a, e in m:
                s = show(a, depth + 1)
                if a[0] in ('poly', 'ite', 'cmp'):
                    s = '(' + s + ')'
                fs.append(s if e == 1 else '%s^%d' % (s, e))
            body = '*'.join(fs)
            if not fs:
                parts.append(('+' if c >= 0 else '-') + show(_mk(abs(c))))
            elif abs(c) == 1:
                parts.append(('+' if c > 0 else '-') + body)
            else:
                parts.append(('+' if c > 0 else '-') + show(_mk(abs(c))) + '*' + body)
        s = ' '.join(parts)
        return s[1:] if s.startswith('+') else s
    if k == 'cmp':
        return '[%s %s 0]' % (show(t[2], depth + 1), {'gt': '>', 'ge': '>=', 'eq': '==', 'ne': '!='}[t[1]])
    if k == 'not':
        return '!' + show(t[1], depth + 1)
    if k == 'and':
        return '(' + ' && '.join(show(a, depth + 1) for a in t[1]) + ')'
    if k == 'or':
        return '(' + ' || '.join(show(a, depth + 1) for a in t[1]) + ')'
    if k == 'ite':
        return 'ite(%s, %s, %s)' % tuple(show(a, depth + 1) for a in t.parts[1:])
    if k == 'tuple':
        return '(' + ', '.join(show(a, depth + 1) for a in t[1]) + ')'
    return repr(t)
