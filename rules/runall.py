"""Run all 18 specifications on one fact file; print one JSON line {property: [violation keys]}."""
import json
import sys
import time

from . import runner

PIDS = ['C%02d' % i for i in range(1, 19)]


def main():
    facts = sys.argv[1]
    out = {}
    for pid in PIDS:
        try:
            ctx, viol, known, lines, ev = runner.run_property(pid, facts, 'sweep', time.time(), quiet=True)
            out[pid] = [o.key for o in viol]
        except Exception as e:
            out[pid] = ['engine-crash: %r' % (e,)]
    print(json.dumps(out))


if __name__ == '__main__':
    main()
