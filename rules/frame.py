"""Frame rules shared by the kernel specs: who may change the state of a sampler, which code a user-visible method
name resolves to, and purity of the accessors the value-flow engine summarises abstractly.

  * field write sets: crate-wide THIR scan for Assign / AssignOp / `&mut` borrows (explicit or auto-ref'd receivers) /
    struct literals that touch a field of a given ADT.  A private helper stands for its callers (its writes are
    attributed, transitively, to the public/trait entry points that reach it), so extracting or renaming helpers is
    invisible; a NEW entry point that writes the field is reported.
  * shadowing: an inherent method with the name of a crate-trait method implemented (or provided) for the same ADT
    takes precedence in method-call syntax, so `chain.step()` no longer runs the anchored trait implementation.
  * accessors: `&mut`-returning accessors that the engine treats as abstract places must be exactly `&mut self.<field>`
    with no other effect.
"""
from . import terms as T
from .facts import walk, strip_generics, type_head, canon_path


def _root(facts, b):
    return facts.closure_root(b) or b


def is_entry(b):
    """public / trait-dispatched function: stands for itself in a write set (a private free fn or private inherent
    method is attributed to its callers instead)"""
    if b.get('container') in ('trait_impl', 'trait'):
        return True
    return 'Public' in (b.get('vis') or '')


def call_graph(facts):
    """callee did -> set of caller root paths (crate-local, resolved callees, closures folded into their parent fn)"""
    cg = getattr(facts, '_frame_cg', None)
    if cg is not None:
        return cg
    cg = {}
    for b in facts.bodies:
        if not facts.is_hand_written(b):
            continue
        root = _root(facts, b)

        def f(n, root=root):
            c = n.get('fn')
            if isinstance(c, dict):     # Call nodes and zero-sized fn items passed as values
                for d in (c.get('resolved_did'), c.get('did')):
                    if d:
                        cg.setdefault(d, set()).add(root['did'])
        walk(b.get('thir'), f)
    facts._frame_cg = cg
    return cg


def reference_api():
    """public / trait function paths of the reference tree (rules/floors.json '_api'): a function absent from it is NEW code"""
    global _REF_API
    try:
        return _REF_API
    except NameError:
        pass
    import json, os
    try:
        _REF_API = set(canon_path(x) for x in (json.load(open(os.path.join(os.path.dirname(os.path.abspath(__file__)), 'floors.json'))).get('_api') or []))
    except Exception:
        _REF_API = set()
    return _REF_API


def entries_of(facts, b, seen=None):
    """the entry points a writer function stands for.  Private functions stand for their callers.  A public inherent / free function
    that did not exist on the reference tree and that crate code calls is a helper too (its own surface is new explicit API);
    functions of the reference API and trait methods stand for themselves."""
    seen = seen if seen is not None else set()
    root = _root(facts, b)
    if root['did'] in seen:
        return set()
    seen.add(root['did'])
    path = canon_path(root['path'])      # generic parameter names are free
    callers = call_graph(facts).get(root['did'], set())
    new_helper = is_entry(root) and root.get('container') not in ('trait_impl', 'trait') and path not in reference_api() and callers
    if is_entry(root) and not new_helper:
        ed = getattr(facts, '_frame_entry_did', None)
        if ed is None:
            ed = facts._frame_entry_did = {}
        ed[path] = root['did']
        return {path}
    if not callers:
        return {path + ' (private, no caller found)'}
    out = set()
    for d in callers:
        cb = facts.by_did.get(d)
        if cb is not None:
            out |= entries_of(facts, cb, seen)
    return out


def field_writers(facts, adt):
    """{field: {(entry path, how)}} over the whole crate"""
    out = {}
    for b in facts.bodies:
        if not facts.is_hand_written(b):
            continue
        hits = []

        def fields_on(l):
            """fields of `adt` on the access path of a place expression (`self.v[i]`, `(*chain).target.inner`)"""
            fs = []
            while isinstance(l, dict) and l.get('k') in ('Index', 'Deref', 'Field'):
                if l.get('k') == 'Field' and strip_generics(l.get('adt', '')) == adt:
                    fs.append(l.get('name'))
                l = l.get('e')
            return fs

        def f(n):
            k = n.get('k')
            if k in ('Assign', 'AssignOp'):
                for fl in fields_on(n['l']):
                    hits.append((fl, k))
                if type_head(n['l'].get('ty', '')) == adt:
                    hits.append(('*', 'Assign-whole'))
            if k == 'Adt' and strip_generics(n.get('adt', '')) == adt:
                for fl in n['fields']:
                    hits.append((fl['name'], 'ctor'))
                if n.get('base') is not None:
                    hits.append(('*', 'ctor-base'))
            if k in ('Borrow', 'RawBorrow') and n.get('mut'):
                for fl in fields_on(n['e']):
                    hits.append((fl, '&mut'))
            if k == 'Leaf' and type_head(n.get('ty', '')) == adt:
                # destructuring `let Self { current_state, .. } = self` on a `&mut` scrutinee: by-reference mutable bindings
                for sub in n.get('subs', []):
                    hit = []

                    def g(m, hit=hit):
                        if m.get('k') == 'Binding' and m.get('by_ref_mut'):
                            hit.append(1)
                    walk(sub.get('pat'), g)
                    if hit:
                        hits.append((sub.get('name'), '&mut pattern'))
            if k == 'Call' and isinstance(n.get('fn'), dict) and not n['fn'].get('local'):
                # foreign code handed the whole state mutably (mem::swap / replace / take ...)
                for a in n.get('args', []):
                    t = a.get('ty', '') if isinstance(a, dict) else ''
                    if t.startswith('&mut ') and type_head(t[5:]) == adt:
                        hits.append(('*', 'extern:' + strip_generics(n['fn'].get('path', '?'))))
        walk(b.get('thir'), f)
        if hits:
            ents = entries_of(facts, b)
            for fld, how in hits:
                for e in ents:
                    out.setdefault(fld, set()).add((e, how))
    return out


def rebuild_keeps(ctx, x, f, got):
    """writer x = (entry path, way) of field f is a builder-style method that REBUILDS the value (`Self { f: self.f, g: new }`,
    `Self { g: new, ..self }`, possibly through a private constructor helper) and leaves f at the receiver's value: such a method
    writes only the fields whose value differs -- decided on the evaluation of the method"""
    eb = ctx.facts.by_did.get(getattr(ctx.facts, '_frame_entry_did', {}).get(x[0]))
    if eb is None or x[1] not in ('ctor', 'ctor-base') or any(y[0] == x[0] and y[1] not in ('ctor', 'ctor-base') for y in got):
        return False
    try:
        from .speclib import fld, S as _S
        rt = ctx.evaluate(eb).ret_term
        return rt is not None and fld(rt, f) is fld(_S('self'), f)
    except Exception:
        return False


def check_frame(ctx, pfx, adt, table, why):
    """obligation per field: effective writers are a subset of the table (entry path -> admissible ways)"""
    st = ctx.facts.structs.get(adt)
    A = 'crate (write set of %s)' % adt
    if st is None:
        ctx.unknown(pfx + '.frame', A, 'struct', why='struct %s not found' % adt)
        return
    w = field_writers(ctx.facts, adt)
    ctx.extra['frame_scan'] = {'bodies_scanned_for_writers': sum(1 for b in ctx.facts.bodies if ctx.facts.is_hand_written(b)),
                               'rule': 'crate-wide THIR scan: Assign/AssignOp/&mut-borrow/struct literal/foreign &mut hand-off per field; private writers attributed to the entry points that reach them'}
    ctx.extra.setdefault('frame_structs', [])
    if adt not in ctx.extra['frame_structs']:
        ctx.extra['frame_structs'].append(adt)
    for fl in st['fields']:
        f = fl['name']
        allowed = table.get(f)
        allowed = set(canon_path(a) for a in allowed) if allowed is not None else None
        if allowed is None:
            # a field the table does not know (added later): it is not part of the specified state; if the anchored
            # transition came to depend on it, the normal-form obligations of the spec change and report that
            ctx.ok(pfx + '.frame', A, f, expected='(field not in the write-set table)', found='not part of the specified state', why=why)
            continue
        got = w.get(f, set()) | w.get('*', set())
        extra, explicit = [], []
        for x in sorted(got):
            if x[0] in allowed:
                continue
            eb = ctx.facts.by_did.get(getattr(ctx.facts, '_frame_entry_did', {}).get(x[0]))
            implicit = eb is None or eb.get('container') in ('trait_impl', 'trait') or x[0] in reference_api() or bool(call_graph(ctx.facts).get(eb['did']))
            # a public inherent method / free fn that did NOT exist on the reference tree and that nothing in the crate calls is new
            # explicit API (a setter the user has to invoke): it changes no existing behaviour.  Trait methods (dispatched from
            # generic code), functions of the reference API (their behaviour is what users already rely on) and anything the
            # existing code reaches are implicit writers.
            if implicit and rebuild_keeps(ctx, x, f, got):
                continue
            (extra if implicit else explicit).append(x)
        ctx.check(pfx + '.frame', A, f, not extra, expected='written only by %s (or by new public API that no existing code calls)' % sorted(allowed),
                  found='also written by %s' % extra if extra else '%s%s' % (sorted(x for x in got if x not in explicit), '; explicit new API: %s' % explicit if explicit else ''),
                  why=why)


def shadowing(ctx, pfx, adts):
    """no inherent method on one of `adts` carries the name of a method of a crate trait implemented for that ADT"""
    facts = ctx.facts
    trait_methods = {}   # trait path -> set of method names (declared or provided)
    for b in facts.bodies:
        if b.get('container') == 'trait' and b.get('trait'):
            trait_methods.setdefault(strip_generics(b['trait']), set()).add(b.get('name'))
    impl_names = {}      # adt -> {name: trait}
    inherent = {}        # adt -> {name: body}
    for b in facts.bodies:
        if b.get('def_kind') != 'AssocFn' or not facts.is_hand_written(b):
            continue
        h = type_head(b.get('self_ty') or '')
        if b.get('container') == 'trait_impl':
            tr = strip_generics(b.get('trait') or '')
            impl_names.setdefault(h, {})[b.get('name')] = tr
            for nm in trait_methods.get(tr, ()):   # provided methods are callable on the ADT as well
                impl_names[h].setdefault(nm, tr)
        elif b.get('container') == 'inherent':
            inherent.setdefault(h, {})[b.get('name')] = b
    std_impls_derived(ctx, pfx, adts)
    for adt in adts:
        coll = sorted(set(impl_names.get(adt, {})) & set(inherent.get(adt, {})))
        b0 = inherent.get(adt, {}).get(coll[0]) if coll else None
        ctx.check(pfx + '.no_shadow', adt, 'method-resolution', not coll, expected='no inherent method of %s has the name of a trait method implemented for it' % adt,
                  found='inherent %s shadow(s) %s' % (', '.join('%s::%s' % (adt, c) for c in coll), ', '.join('%s::%s' % (impl_names[adt][c], c) for c in coll)) if coll else 'none (%d inherent, %d trait methods)' % (len(inherent.get(adt, {})), len(impl_names.get(adt, {}))),
                  sp=b0['sp'] if b0 else None,
                  why='method-call syntax prefers inherent methods: `x.m()` on the concrete type would run different code from the anchored trait implementation')


ENGINE_BUILTIN_TRAITS = ('std::clone::Clone', 'std::cmp::PartialEq', 'std::cmp::PartialOrd', 'std::cmp::Ord', 'std::cmp::Eq', 'std::ops::Drop', 'std::ops::Deref', 'std::ops::DerefMut',
                         'std::default::Default', 'std::borrow::Borrow', 'std::borrow::BorrowMut', 'std::convert::AsRef', 'std::convert::AsMut', 'std::marker::Copy',
                         'std::ops::Index', 'std::ops::IndexMut', 'std::iter::IntoIterator', 'std::iter::Iterator')


def std_impls_derived(ctx, pfx, adts):
    """the value-flow engine gives Clone / comparison / Deref / Drop ... their standard meaning (a clone is a copy, `==` is
    structural, dropping has no effect): true for derived impls, an assumption for hand-written ones"""
    by = {}
    for im in ctx.facts.impls:
        tr = strip_generics(im.get('trait') or '')
        if tr in ENGINE_BUILTIN_TRAITS and not im.get('derived'):
            by.setdefault(type_head(im.get('self_ty') or ''), []).append((tr, im.get('sp')))
    for adt in adts:
        hw = by.get(adt, [])
        ctx.check(pfx + '.std_impls', adt, 'std-traits', not hw, expected='Clone / PartialEq / PartialOrd / Default / Deref / Drop ... of %s are derived (or absent)' % adt,
                  found='hand-written: ' + ', '.join('%s at %s' % x for x in hw) if hw else 'derived or absent', sp=hw[0][1] if hw else None,
                  why='the analysis reads `x.clone()` as a copy of x and `a == b` as structural equality; a hand-written impl (a clone that re-seeds, an equality that ignores a field, a Drop with effects) is outside what was analysed')


def accessor_pure(ctx, pfx, b, field, mut=True):
    """`fn acc(&mut self) -> &mut F { &mut self.<field> }` and nothing else"""
    from .speclib import keyrepr
    from .vflow import Ref
    A = canon_path(b['path'])
    ev = ctx.evaluate(b)
    ret = ev.ret
    ok_ret = isinstance(ret, Ref) and keyrepr(ret.place) == 'self.' + field
    written = [w for w in ev.written_ext()]
    evs = [e.op if e.op != 'call' else e.key for e in ev.vf.events]
    loops = len(ev.vf.loops)
    ok = ok_ret and not written and not evs and loops == 0
    ctx.check(pfx + '.accessor', A, field, ok, expected='returns %sself.%s; writes nothing, calls nothing' % ('&mut ' if mut else '&', field),
              found='ret=%s writes=%s events=%s loops=%d' % (keyrepr(ret.place) if isinstance(ret, Ref) else type(ret).__name__, written, evs[:6], loops), sp=b['sp'],
              why='the runners reach the chains only through this accessor and the analysis treats it as the place self.%s: an accessor with side effects (re-syncing, resetting or re-seeding chains) changes every run' % field)


def required_method(ctx, pfx, trait, name, why):
    """the trait method is declared without a provided body (every implementor must supply it)"""
    provided = [b for b in ctx.facts.bodies if b.get('container') == 'trait' and strip_generics(b.get('trait') or '') == trait and b.get('name') == name]
    impls = [b for b in ctx.facts.bodies if b.get('container') == 'trait_impl' and strip_generics(b.get('trait') or '') == trait and b.get('name') == name]
    decl = trait in set(strip_generics(b.get('trait') or '') for b in ctx.facts.bodies if b.get('container') in ('trait', 'trait_impl'))
    ctx.check(pfx + '.required', '%s::%s' % (trait, name), 'required-method', decl and not provided and bool(impls),
              expected='declared without a default body; implemented by every implementor (%d impl(s) in the crate)' % len(impls),
              found='provided default at %s' % provided[0]['sp'] if provided else ('trait not found' if not decl else '%d impl(s), no default' % len(impls)),
              sp=provided[0]['sp'] if provided else None, why=why)


def no_override(ctx, pfx, trait, name, why):
    """no implementor in the crate overrides the provided method that the analysis anchors on the trait"""
    prov = [b for b in ctx.facts.bodies if b.get('container') == 'trait' and strip_generics(b.get('trait') or '') == trait and b.get('name') == name]
    over = [b for b in ctx.facts.bodies if b.get('container') == 'trait_impl' and strip_generics(b.get('trait') or '') == trait and b.get('name') == name]
    ctx.check(pfx + '.no_override', '%s::%s' % (trait, name), 'override', bool(prov) and not over, expected='provided by the trait, overridden by no implementor in the crate',
              found='overridden by ' + ', '.join(canon_path(b['path']) for b in over) if over else ('no provided body found' if not prov else 'no override'),
              sp=over[0]['sp'] if over else None, why=why)
