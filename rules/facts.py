"""Load and index the fact file written by the mcmc-facts driver."""
import json
import re


def strip_generics(path):
    """'a::B::<T, U>::c' -> 'a::B::c' ; '<impl X<T>>' segments are kept as is"""
    out = []
    depth = 0
    i = 0
    n = len(path)
    while i < n:
        if path.startswith('::<', i) and depth == 0:
            # skip balanced <...>
            j = i + 3
            d = 1
            while j < n and d > 0:
                if path[j] == '<':
                    d += 1
                elif path[j] == '>' and path[j - 1] != '-':
                    d -= 1
                j += 1
            i = j
            continue
        out.append(path[i])
        i += 1
    return ''.join(out)


def canon_path(path):
    """path of a function with every generic argument list erased, also inside a `<Type<..> as Trait<..>>::m` qualifier:
    '<a::B<T, F> as c::D<T>>::m' -> '<a::B as c::D>::m'.  Generic parameters are named per impl block and may be renamed freely."""
    p = strip_generics(path)
    out, depth, i, n = [], 0, 0, len(p)
    lead = p.startswith('<')
    while i < n:
        ch = p[i]
        if ch == '<':
            if i == 0 and lead:
                out.append(ch)          # the qualifier's own bracket
            else:
                depth += 1
            i += 1
            continue
        if ch == '>' and (i == 0 or p[i - 1] != '-'):
            if depth > 0:
                depth -= 1
            else:
                out.append(ch)
            i += 1
            continue
        if depth == 0:
            out.append(ch)
        i += 1
    return ''.join(out)


def type_head(ty):
    ty = ty.strip()
    while ty.startswith('&'):
        ty = ty[1:].strip()
        if ty.startswith('mut '):
            ty = ty[4:]
        if ty.startswith("'"):
            ty = ty.split(' ', 1)[1] if ' ' in ty else ty
    if ty.startswith('['):
        return 'core::slice'
    m = re.match(r'[A-Za-z0-9_:]+', ty)
    return m.group(0) if m else ty


def callee_key(fn):
    """stable semantic key for a callee: trait::method / Type::method / free path"""
    if fn is None:
        return None
    c = fn.get('container')
    name = fn.get('name', '')
    if c in ('trait', 'trait_impl'):
        return '%s::%s' % (fn['trait'], name)
    if c == 'inherent':
        return '%s::%s' % (type_head(fn.get('self_ty', '')), name)
    return strip_generics(fn['path'])


class Facts:
    def __init__(self, path):
        with open(path) as f:
            self.raw = json.load(f)
        self.crate = self.raw['crate']
        self.bodies = self.raw['bodies']
        self.by_did = {b['did']: b for b in self.bodies}
        self.structs = {s['path']: s for s in self.raw['structs']}
        self.impls = self.raw['impls']
        self.children = {}
        for b in self.bodies:
            self.children.setdefault(b['parent'], []).append(b)

    def body(self, did):
        return self.by_did.get(did)

    def find(self, pred):
        return [b for b in self.bodies if pred(b)]

    def fn_by_path(self, path_re):
        """bodies (Fn/AssocFn) whose generic-stripped path matches the regex fully"""
        rx = re.compile(path_re)
        return [b for b in self.bodies if b['def_kind'] in ('Fn', 'AssocFn') and rx.fullmatch(strip_generics(b['path']))]

    def is_hand_written(self, b):
        return not b.get('derived') and not b.get('from_expansion') and b['def_kind'] != 'AnonConst'

    def closure_root(self, b):
        """the fn/assoc fn a closure belongs to"""
        while b is not None and b['def_kind'] == 'Closure':
            b = self.by_did.get(b['parent'])
        return b


def walk(node, fn):
    """pre-order walk over a THIR json tree"""
    if isinstance(node, dict):
        fn(node)
        for v in node.values():
            walk(v, fn)
    elif isinstance(node, list):
        for v in node:
            walk(v, fn)
