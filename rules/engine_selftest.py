"""Sanity checks of the term algebra (run by the thorough tier; a failure is a checker failure)."""
from . import terms as T


def run():
    a, b, c = T.sym('a'), T.sym('b'), T.sym('c')
    N = T.num
    fails = []

    def eq(name, x, y, same=True):
        if (x is y) != same:
            fails.append('%s: %s vs %s' % (name, T.show(x), T.show(y)))
    eq('square', T.powi(T.add(a, b), 2), T.sum_terms([T.powi(a, 2), T.mul(N(2), T.mul(a, b)), T.powi(b, 2)]))
    eq('assoc/comm', T.add(T.add(a, b), c), T.add(c, T.add(b, a)))
    eq('sub', T.sub(a, b), T.add(a, T.neg(b)))
    eq('div-const', T.div(a, N(2)), T.mul(a, N('0.5')))
    eq('div-mono', T.mul(T.div(a, b), b), a)
    eq('inv-poly', T.mul(T.div(a, T.add(b, c)), T.add(b, c)), T.mul(T.mul(a, T.div(T.ONE, T.add(b, c))), T.add(c, b)))
    eq('mirror', T.cmp('lt', a, b), T.cmp('gt', b, a))
    eq('move-terms', T.cmp('gt', a, b), T.cmp('gt', T.sub(a, b), T.ZERO))
    eq('strictness', T.cmp('gt', a, b), T.cmp('ge', a, b), same=False)
    eq('no-negation-through-cmp', T.lnot(T.cmp('le', a, b)), T.cmp('gt', a, b), same=False)
    eq('ite-not', T.ite(T.lnot(T.cmp('gt', a, b)), a, b), T.ite(T.cmp('gt', a, b), b, a))
    eq('ite-same', T.ite(T.cmp('gt', a, b), c, c), c)
    eq('ite-nested', T.ite(T.cmp('gt', a, b), T.ite(T.cmp('gt', a, b), a, b), c), T.ite(T.cmp('gt', a, b), a, c))
    eq('and-comm', T.land(T.cmp('gt', a, b), T.cmp('gt', b, c)), T.land(T.cmp('gt', b, c), T.cmp('gt', a, b)))
    eq('subst', T.subst(T.add(T.mul(a, b), c), {a: N(2)}), T.add(T.mul(N(2), b), c))
    eq('subst-inv', T.subst(T.div(a, T.add(b, N(1))), {b: N(1)}), T.div(a, N(2)))
    eq('ln-not-interpreted', T.app('ln', T.mul(a, b)), T.add(T.app('ln', a), T.app('ln', b)), same=False)
    eq('swap-args', T.app('f', a, b), T.app('f', b, a), same=False)
    eq('exact-rationals', T.add(N('0.1'), N('0.2')), N('0.3'))
    eq('proj', T.proj(T.tup(a, b), 1), b)
    return fails


if __name__ == '__main__':
    f = run()
    print('\n'.join(f) or 'engine selftest ok')
    raise SystemExit(1 if f else 0)
