"""Check runner: extraction is done by the shell wrapper; this loads facts, runs one property's
specification, applies the known-findings file and writes evidence."""
import importlib
import json
import os
import sys
import time

from .speclib import Ctx
from . import semtab

V = '/verif'


def load_known():
    p = os.path.join(V, 'known_findings.json')
    if not os.path.exists(p):
        return {'known': [], 'fixed': []}
    return json.load(open(p))


def run_property(pid, facts_path, tier, t0, extra_cov=None, quiet=False):
    mod = importlib.import_module('rules.spec.' + pid)
    ctx = Ctx(facts_path, pid)
    semtab.USED.clear()
    err = None
    try:
        mod.run(ctx)
    except Exception as e:  # fail closed: an engine crash is "cannot establish", never a pass
        import traceback
        err = traceback.format_exc()
        ctx.unknown(pid + '.engine', 'engine', 'crash', why='rule engine raised: %r' % (e,))
    floors = dict(getattr(mod, 'FLOORS', {}))
    # Vacuity guard: every RULE that produced an obligation on the reference tree must produce at least one now (a rule that no
    # longer matches anything would pass silently).  The count of obligations per rule is free: de-duplicating two call sites
    # into a helper, or adding a field, changes how many instances a rule has, not whether it is armed.
    ref_rules = None
    try:
        import json as _json
        ref_rules = _json.load(open(os.path.join(os.path.dirname(os.path.abspath(__file__)), 'floors.json'))).get(pid)
    except Exception:
        ref_rules = None
    seen_rules = set(o.oid for o in ctx.obs)
    n_ob = len(ctx.obs)
    if ref_rules is None:
        ctx.unknown(pid + '.floor', 'framework', 'rules', why='no reference rule list for %s (rules/floors.json): cannot tell whether the rule set is complete' % pid)
    else:
        missing = [r for r in ref_rules if r not in seen_rules]
        floors['rules'] = len(ref_rules)
        if missing:
            ctx.unknown(pid + '.floor', 'framework', 'rules', why='rule(s) armed on the reference tree produced no obligation: %s' % ', '.join(missing[:8]))
    known = load_known()
    kmap = {k['key']: k for k in known.get('known', []) if k.get('property') == pid}
    viol, knownhits = [], []
    for ob in ctx.obs:
        if ob.verdict == 'discharged':
            continue
        if ob.key in kmap:
            knownhits.append((ob, kmap[ob.key]))
        else:
            viol.append(ob)
    os.makedirs(os.path.join(V, 'evidence', 'replay'), exist_ok=True)
    lines = []
    for ob, k in knownhits:
        lines.append('KNOWN-FINDING: property=%s %s %s' % (pid, ob.key, k.get('what', '')))
    for i, ob in enumerate(viol):
        rp = os.path.join(V, 'evidence', 'replay', '%s-%d.json' % (pid, i))
        json.dump({'property': pid, 'key': ob.key, 'obligation': ob.to_json(), 'rule_text': ob.why}, open(rp, 'w'), indent=1)
        lines.append('VIOLATION property=%s replay=%s' % (pid, rp))
        lines.append('  key      %s' % ob.key)
        lines.append('  verdict  %s   at %s' % (ob.verdict, ob.sp))
        lines.append('  expected %s' % str(ob.expected)[:600])
        lines.append('  found    %s' % str(ob.found)[:600])
        lines.append('  why      %s' % ob.why)
    if err and not quiet:
        lines.append(err)
    cov = {
        'explanation': getattr(mod, 'EXPLANATION', ''),
        'obligations': n_ob,
        'discharged': sum(1 for o in ctx.obs if o.verdict == 'discharged'),
        'violated': sum(1 for o in ctx.obs if o.verdict == 'violated'),
        'unrecognised': sum(1 for o in ctx.obs if o.verdict == 'unrecognised'),
        'known_findings_matched': [ob.key for ob, _ in knownhits],
        'bodies_analysed': sorted(ctx.bodies_analysed),
        'bodies_in_crate': len(ctx.facts.bodies),
        'call_sites_in_analysed_bodies': ctx.call_sites,
        'rules': sorted(set(o.rule for o in ctx.obs)),
        'floors': floors,
        'checker_cmd': './check %s %s' % (pid, tier),
        'trusted_base': ['rustc type checker + THIR/MIR construction (nightly 1.97)', 'semantic table entries used: ' + ', '.join(sorted(semtab.USED))],
        'samples': [o.to_json() for o in ctx.obs][:60],
        'technique': getattr(mod, 'TECHNIQUE', ''),
    }
    cov.update(ctx.extra)
    if extra_cov:
        cov.update(extra_cov)
    ev = {'property_id': pid, 'tier': tier, 'seed': int(os.environ.get('VERIF_SEED', '0') or 0), 'level': 'other',
          'coverage': cov, 'assumptions': getattr(mod, 'ASSUMPTIONS', []) + [
              'floating-point re-association ignored: obligations are at the level of real-number expressions plus comparison polarity',
              'user trait implementations are quantified over through their signatures only'],
          'wall_s': round(time.time() - t0, 2), 'violations': len(viol)}
    return ctx, viol, knownhits, lines, ev


def main():
    pid, facts_path, tier = sys.argv[1], sys.argv[2], sys.argv[3]
    t0 = float(os.environ.get('CHECK_T0', time.time()))
    ctx, viol, knownhits, lines, ev = run_property(pid, facts_path, tier, t0)
    for l in lines:
        print(l)
    c = ev['coverage']
    print('%s %s: %d obligations, %d discharged, %d violated, %d unrecognised, %d known findings; bodies analysed: %d' % (
        pid, tier, c['obligations'], c['discharged'], c['violated'], c['unrecognised'], len(knownhits), len(c['bodies_analysed'])))
    if not os.environ.get('VERIF_NO_EVIDENCE'):
        json.dump(ev, open(os.path.join(V, 'evidence', pid + '.json'), 'w'), indent=1)
    sys.exit(1 if viol else 0)


if __name__ == '__main__':
    main()
