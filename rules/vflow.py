"""Value-flow evaluator (VF): abstract interpretation of THIR bodies into normal-form terms.

One evaluation walks a body once per control-flow join (both arms of every branch), merges
with ite terms, summarises loops by evaluating their body at a symbolic iteration over
havocked loop-carried places, inlines crate-local callees and closures, and models external
callees through the semantic table (semtab.py).  No path enumeration, no execution.
"""
import re
from collections import namedtuple
from . import terms as T
from .facts import callee_key, strip_generics

Place = namedtuple('Place', 'root path')
Ref = namedtuple('Ref', 'place mut')


class Clos:
    def __init__(self, did, frame, node):
        self.did, self.frame, self.node = did, frame, node


class Tup:
    """tuple / aggregate holding rich values"""

    def __init__(self, items):
        self.items = list(items)


class Opt:
    """Option whose payload is a rich value (a reference into a container, a tuple): `iter.next()`, `slice.get_mut(i)`"""

    def __init__(self, cond, payload):
        self.cond, self.payload = cond, payload


class Seq:
    """abstract finite sequence: length term n, element function of the index term"""

    def __init__(self, n, elem, desc='seq', src=None):
        self.n, self.elem, self.desc, self.src = n, elem, desc, src


class Opaque(Exception):
    pass


class LoopSum:
    def __init__(self, uid):
        self.uid = uid
        self.kind = None        # for | loop | forced
        self.n = None           # trip-count term (for-loops)
        self.var = None         # iteration symbol
        self.elem = None        # element value at iteration var
        self.seq_desc = None
        self.init = {}          # key -> value before loop
        self.lh = {}            # key -> loop-head symbol
        self.next = {}          # key -> value after one iteration (in terms of lh, var)
        self.lx = {}            # key -> exit symbol
        self.exits = []         # (kind, label, cond)
        self.exit_states = []   # per exit: key -> value of the carried place at that exit
        self.falls_through = True
        self.events = []        # events of the (second) body pass
        self.owner = None       # path of the body that contains the loop node
        self.sp = None
        self.ctx = ()           # enclosing loop uids
        self.result = None      # for forced map/collect: element result value
        self.frame_chain = ()
        self.pc = ()            # path condition at loop entry

    def carried(self, pred):
        """keys of carried places matching pred(keyrepr)"""
        return [k for k in self.next if pred(keyrepr(k))]


def keyrepr(key):
    root, path = key
    if isinstance(root, tuple) and root[0] == 'ext':
        r = root[1]
    elif isinstance(root, tuple) and root[0] == 'var':
        r = root[2]
    elif isinstance(root, tuple) and root[0] == 'cursor':
        r = keyrepr((root[1], ())) + '#pos'
    else:
        r = str(root)
    for p in path:
        if isinstance(p, tuple):
            r += '[' + T.show(p[1]) + ']'
        else:
            r += '.' + str(p)
    return r


class Event:
    def __init__(self, **kw):
        self.__dict__.update(kw)

    def __repr__(self):
        return 'Event(%s %s)' % (self.op, [T.show(a) for a in self.args])


class VF:
    MAX_INLINE_DEPTH = 8

    def __init__(self, facts, semtab, inline=True, no_inline=()):
        self.facts = facts
        self.semtab = semtab
        self.store = {}
        self.frame = 0
        self.nframes = 0
        self.pc = []
        self.pc_outer = []        # path condition of the (inlined) call sites above the current function
        self.dead = False
        self.fn_exits = []       # stack of lists: (cond, value, store)
        self.loop_exits = []     # stack of lists: (kind, label, cond)
        self.events = []
        self.loops = []
        self.loop_stack = []
        self.inline_stack = []
        self.discipline = []     # (how, term, sp, owner)
        self.notes = []          # opaque/unknown things met
        self.uid = 0
        self.inline = inline
        self.no_inline = set(no_inline)
        self.owner_stack = []
        self.rec_calls = []      # recursive call sites: (did, args values, result term)
        self.frame_vars = {}
        self.frame_parent = {}
        self.disc_mode = 0

    # ------------------------------------------------------------------ utilities
    def fresh(self, prefix):
        self.uid += 1
        return '%s%d' % (prefix, self.uid)

    def note(self, what, node=None):
        self.notes.append((what, node.get('sp') if isinstance(node, dict) else None, self.owner()))

    def owner(self):
        return self.owner_stack[-1] if self.owner_stack else None

    # ------------------------------------------------------------------ store
    def init_value(self, root):
        if isinstance(root, tuple) and root[0] == 'ext':
            return T.sym(root[1])
        if isinstance(root, tuple) and root[0] == 'var':
            return T.sym('uninit:' + str(root[2]))
        if isinstance(root, tuple) and root[0] == 'cursor':
            return T.ZERO           # position of an iterator value that has not been advanced by hand yet
        return T.sym('init:' + str(root))

    def project(self, v, elem):
        """project a value along one path element"""
        if isinstance(elem, tuple) and elem[0] == 'idx':
            i = elem[1]
            if isinstance(v, Tup):
                if T.is_num(i) and T.numval(i) < len(v.items):
                    return v.items[int(T.numval(i))]
                v = self.to_term(v)
            if isinstance(v, Seq):
                return v.elem(i)
            if isinstance(v, Ref):
                v = self.read(v.place)
                return self.project(v, elem)
            return index_term(self.to_term(v), i)
        if isinstance(v, Tup):
            if isinstance(elem, int) and elem < len(v.items):
                return v.items[elem]
            v = self.to_term(v)
        if isinstance(v, Ref):
            v = self.read(v.place)
            return self.project(v, elem)
        v = self.to_term(v)
        if isinstance(elem, int):
            return T.proj(v, elem)
        return field_term(v, elem)

    def read(self, place):
        root, path = place
        # idx elements: read the container then index
        for n, p in enumerate(path):
            if isinstance(p, tuple) and p[0] == 'idx':
                base = self.read(Place(root, path[:n]))
                v = self.project(base, p)
                for q in path[n + 1:]:
                    v = self.project(v, q)
                return v
        # longest stored prefix
        for n in range(len(path), -1, -1):
            k = (root, path[:n])
            if k in self.store:
                v = self.store[k]
                for q in path[n:]:
                    v = self.project(v, q)
                break
        else:
            v = self.init_value(root)
            for q in path:
                v = self.project(v, q)
            n = -1
        # overlays: deeper stored entries
        over = [(k, val) for k, val in self.store.items()
                if k[0] == root and len(k[1]) > len(path) and k[1][:len(path)] == path]
        if over:
            base = self.to_term(v) if not isinstance(v, Tup) else v
            if isinstance(base, Tup):
                items = list(base.items)
                rest = []
                for k, val in over:
                    sub = k[1][len(path):]
                    if len(sub) == 1 and isinstance(sub[0], int) and sub[0] < len(items):
                        items[sub[0]] = val
                    else:
                        rest.append((k, val))
                v = Tup(items)
                if not rest:
                    return v
                base = self.to_term(v)
                over = rest
            sets = []
            for k, val in sorted(over, key=lambda kv: repr(kv[0][1])):
                sub = '.'.join(str(x) for x in k[1][len(path):])
                sets.append(T.app('set:' + sub, self.to_term(val)))
            v = T.app('with', base, *sets)
        return v

    def write(self, place, v):
        root, path = place
        for n, p in enumerate(path):
            if isinstance(p, tuple) and p[0] == 'idx':
                cont = Place(root, path[:n])
                base = self.to_term(self.read(cont))
                rest = path[n + 1:]
                elem = index_term(base, p[1])
                newv = self.functional_update(elem, rest, self.to_term(v)) if rest else self.to_term(v)
                self.write(cont, upd_term(base, p[1], newv))
                return
        for k in [k for k in self.store if k[0] == root and len(k[1]) > len(path) and k[1][:len(path)] == path]:
            del self.store[k]
        if root[0] == 'var':
            self.frame_vars.setdefault(root[1], set()).add(root[3])
        if self.disc_mode:
            # discovery pass: only the set of written places matters; keep values tiny
            self.written.add((root, path))
            v = self.dummify(v)
        self.store[(root, path)] = v

    def functional_update(self, base, path, v):
        """value of `base` after writing v at sub-path `path` (indices and fields)"""
        if not path:
            return v
        first, rest = path[0], path[1:]
        if isinstance(first, tuple) and first[0] == 'idx':
            return upd_term(base, first[1], self.functional_update(index_term(base, first[1]), rest, v))
        if isinstance(first, int):
            return T.app('with', base, T.app('set:%d' % first, self.functional_update(T.proj(base, first), rest, v)))
        return with_set(base, str(first), self.functional_update(field_term(base, first), rest, v))

    DUMMY = T.sym('?')

    def dummify(self, v):
        if isinstance(v, T.Tm):
            if v[0] == 'app' and v[1] == 'range':
                return v
            return self.DUMMY
        if isinstance(v, Tup):
            return Tup([self.dummify(x) for x in v.items])
        return v

    # ------------------------------------------------------------------ values
    def deref(self, v):
        n = 0
        while isinstance(v, Ref) and n < 10:
            v = self.read(v.place)
            n += 1
        return v

    def to_term(self, v):
        v = self.deref(v)
        if isinstance(v, T.Tm):
            return v
        if isinstance(v, Tup):
            return T.tup(*[self.to_term(x) for x in v.items])
        if isinstance(v, Clos):
            return T.app('closure', T.sym(v.did))
        if isinstance(v, Seq):
            return self.comp_term(v)
        if isinstance(v, Opt):
            return T.app('opt', v.cond, self.to_term(v.payload))
        if v is None:
            return T.UNIT
        raise TypeError(v)

    def comp_term(self, seq):
        """pure comprehension term [elem(k) | k < n]"""
        k = T.sym(self.fresh('k#'))
        ev = seq.elem(k)
        et = self.to_term(ev)
        return mk_comp(seq.n, k, et)

    # ------------------------------------------------------------------ frames
    def new_frame(self):
        self.nframes += 1
        return self.nframes

    def var_place(self, var, name, frame=None):
        return Place(('var', self.frame if frame is None else frame, name, var), ())

    # ------------------------------------------------------------------ entry
    def eval_fn(self, body, args=None, self_sym=None):
        from .facts import type_head as _th
        self.root_self_head = _th(body.get('self_ty') or '') if body.get('self_ty') else None
        """Evaluate a top-level body with symbolic parameters.  Returns the return value."""
        frame = self.new_frame()
        saved = self.frame
        self.frame = frame
        self.owner_stack.append(strip_generics(body['path']))
        self.inline_stack.append(body['did'])
        self.fn_exits.append([])
        params = body.get('params') or []
        for i, p in enumerate(params):
            pat = p.get('pat')
            if pat is None:
                continue
            if args is not None and i < len(args):
                val = args[i]
            else:
                name = pat.get('name', 'arg%d' % i) if pat['k'] == 'Binding' else 'arg%d' % i
                ty = p['ty']
                if ty.startswith('&'):
                    val = Ref(Place(('ext', name), ()), ty.startswith('&mut'))
                else:
                    val = T.sym(name)
            self.bind(pat, val)
        v = self.ev(body['thir'])
        ret = self.finish_fn(v)
        self.owner_stack.pop()
        self.inline_stack.pop()
        self.frame = saved
        return ret

    def fn_exit_list(self):
        """exit list of the innermost FUNCTION (labelled blocks keep their own lists on the same stack, tagged with their label)"""
        tags = getattr(self, 'exit_tags', {})
        for lst in reversed(self.fn_exits):
            if id(lst) not in tags:
                return lst
        return self.fn_exits[-1]

    def finish_fn(self, fallthrough):
        exits = self.fn_exits.pop()
        if self.dead:
            val = None
            store = None
        else:
            val = fallthrough
            store = self.store
        # merge exits (in reverse so earlier returns take precedence)
        for cond, v, st in reversed(exits):
            if val is None and store is None:
                val, store = v, st
            else:
                val = self.merge_val(cond, v, val)
                store = self.merge_store(cond, st, store)
        self.dead = False
        if store is not None:
            self.store = store
        return val

    # ------------------------------------------------------------------ merging
    def merge_val(self, c, a, b):
        if a is b:
            return a
        if isinstance(a, Tup) and isinstance(b, Tup) and len(a.items) == len(b.items):
            return Tup([self.merge_val(c, x, y) for x, y in zip(a.items, b.items)])
        if isinstance(a, Ref) and isinstance(b, Ref) and a == b:
            return a
        if a is None and b is None:
            return None
        ta = self.to_term_in(a) if a is not None else T.UNIT
        tb = self.to_term_in(b) if b is not None else T.UNIT
        return T.ite(c, ta, tb)

    def to_term_in(self, v):
        return self.to_term(v)

    def merge_store(self, c, s1, s2):
        if s1 is s2:
            return s1
        out = {}
        keys = set(s1) | set(s2)
        save = self.store
        for k in keys:
            if k in s1 and k in s2:
                a, b = s1[k], s2[k]
            else:
                self.store = s1
                a = s1[k] if k in s1 else self.read(Place(*k))
                self.store = s2
                b = s2[k] if k in s2 else self.read(Place(*k))
            if a is b:
                out[k] = a
            else:
                self.store = s1
                ta = a if isinstance(a, (Ref, Clos, Seq)) and a is b else None
                if isinstance(a, Tup) and isinstance(b, Tup) and len(a.items) == len(b.items):
                    items = []
                    for x, y in zip(a.items, b.items):
                        self.store = s1
                        tx = x if isinstance(x, (Ref, Clos, Seq)) else self.to_term(x)
                        self.store = s2
                        ty = y if isinstance(y, (Ref, Clos, Seq)) else self.to_term(y)
                        if tx is ty or (isinstance(tx, Ref) and isinstance(ty, Ref) and tx == ty):
                            items.append(tx)
                        else:
                            self.store = s1
                            ttx = self.to_term(tx)
                            self.store = s2
                            tty = self.to_term(ty)
                            items.append(T.ite(c, ttx, tty))
                    out[k] = Tup(items)
                    continue
                if isinstance(a, Ref) and isinstance(b, Ref) and a == b:
                    out[k] = a
                    continue
                self.store = s1
                ta = self.to_term(a)
                self.store = s2
                tb = self.to_term(b)
                out[k] = T.ite(c, ta, tb)
        self.store = save
        return out

    # ------------------------------------------------------------------ patterns
    def bind(self, pat, val):
        k = pat['k']
        if k == 'Binding':
            place = self.var_place(pat['var'], pat['name'])
            if pat.get('by_ref'):
                # `ref x` binding: val is a place-ish value; keep alias
                self.write(place, val)
            else:
                self.write(place, val)
            if 'sub' in pat:
                self.bind(pat['sub'], val)
        elif k in ('Wild', 'Missing'):
            pass
        elif k == 'Leaf':
            for sp in pat['subs']:
                elem = sp.get('name', sp['idx'])
                if isinstance(elem, str) and elem.isdigit():
                    elem = int(elem)
                self.bind(sp['pat'], self.project_val(val, elem))
        elif k == 'Deref':
            v = val
            if isinstance(v, Ref):
                # binding through a reference: sub-bindings alias the referent's places
                self.bind_through_ref(pat['sub'], v)
            else:
                self.bind(pat['sub'], v)
        elif k == 'Variant':
            # payload alias (Some/Ok -> the value itself; others -> tagged payload)
            for sp in pat['subs']:
                if pat['variant'] in ('Some', 'Ok'):
                    pv = val
                    if isinstance(pv, Opt):
                        pv = pv.payload
                    if isinstance(pv, T.Tm) and T.is_app(pv, 'opt'):
                        pv = pv[2][1]       # payload of a modelled option (v.get(i) -> v[i], a.checked_sub(b) -> a - b)
                else:
                    pv = variant_payload(pat['variant'], self.to_term(val), sp.get('name', sp.get('idx', 0))) if not isinstance(val, Tup) else val
                self.bind(sp['pat'], pv)
        elif k == 'Constant':
            pass
        elif k == 'Array' and 'slice' not in pat and not pat.get('suffix'):
            # fixed-size array pattern `[p0, p1, ..]`: element i of the scrutinee
            for i, sp in enumerate(pat['prefix']):
                self.bind(sp, self.project_val(val, ('idx', T.num(i))) if isinstance(val, Ref) else self.project(val, ('idx', T.num(i))))
        else:
            self.note('pattern:' + k)

    def bind_through_ref(self, pat, ref):
        k = pat['k']
        if k == 'Binding':
            place = self.var_place(pat['var'], pat['name'])
            if pat.get('by_ref'):
                self.write(place, ref)
            else:
                self.write(place, self.read(ref.place))
        elif k == 'Leaf':
            for sp in pat['subs']:
                elem = sp.get('name', sp['idx'])
                if isinstance(elem, str) and elem.isdigit():
                    elem = int(elem)
                sub = Ref(Place(ref.place.root, ref.place.path + (elem,)), ref.mut)
                # default binding mode: sub-bindings become references
                self.bind_through_ref_default(sp['pat'], sub)
        else:
            self.bind(pat, self.read(ref.place))

    def bind_through_ref_default(self, pat, ref):
        if pat['k'] == 'Binding':
            place = self.var_place(pat['var'], pat['name'])
            if pat['ty'].startswith('&') or pat.get('by_ref'):
                # default binding mode through a reference: the binding is a reference to the field (an alias of the place)
                self.write(place, Ref(ref.place, bool(pat.get('by_ref_mut', ref.mut))) if pat.get('by_ref') else ref)
            else:
                self.write(place, self.read(ref.place))
        else:
            self.bind_through_ref(pat, ref)

    def project_val(self, val, elem):
        if isinstance(val, Ref):
            return Ref(Place(val.place.root, val.place.path + (elem,)), val.mut)
        return self.project(val, elem)

    def pat_cond(self, pat, val):
        """condition under which pat matches val"""
        k = pat['k']
        if k in ('Binding',):
            if 'sub' in pat:
                return self.pat_cond(pat['sub'], val)
            return T.TRUE
        if k in ('Wild', 'Missing'):
            return T.TRUE
        if k == 'Leaf':
            cs = []
            for sp in pat['subs']:
                elem = sp.get('name', sp['idx'])
                cs.append(self.pat_cond(sp['pat'], self.project_val(val, elem)))
            return T.land(*cs)
        if k == 'Deref':
            return self.pat_cond(pat['sub'], val)
        if k == 'Array' and 'slice' not in pat and not pat.get('suffix'):
            return T.land(*[self.pat_cond(sp, self.project_val(val, ('idx', T.num(i))) if isinstance(val, Ref) else self.project(val, ('idx', T.num(i)))) for i, sp in enumerate(pat['prefix'])])
        if k == 'Variant':
            return variant_test(pat['variant'], self.to_term(val))
        if k == 'Constant':
            if pat.get('ty') == 'bool':
                if '0x01' in pat['v'] or 'true' in pat['v']:
                    return self.to_term(val)
                if '0x00' in pat['v'] or 'false' in pat['v']:
                    return T.lnot(self.to_term(val))
            return T.app('is:const:' + pat['v'][:40], self.to_term(val))
        return T.app('matches:' + k, self.to_term(val))

    # ------------------------------------------------------------------ places
    PLACE_KINDS = ('Var', 'Upvar', 'Field', 'Deref', 'Index')

    def ev_place(self, n):
        k = n['k']
        if k == 'Var':
            return self.var_place(n['var'], n['name'])
        if k == 'Upvar':
            fr = self.upvar_frame(n)
            return self.var_place(n['var'], n['name'], fr)
        if k == 'Field':
            base = self.ev_place(n['e'])
            elem = n.get('name', n['idx'])
            if isinstance(elem, str) and elem.isdigit():
                elem = int(elem)
            return Place(base.root, base.path + (elem,))
        if k == 'Deref':
            inner = n['e']
            v = self.ev(inner)
            if isinstance(v, Ref):
                return v.place
            tmp = Place(('tmp', self.fresh('t')), ())
            self.store[(tmp.root, ())] = v
            return tmp
        if k == 'Index':
            base = self.ev_place(n['e'])
            i = self.to_term(self.ev(n['i']))
            return Place(base.root, base.path + (('idx', i),))
        # not a place expression: materialise a temporary
        v = self.ev(n)
        tmp = Place(('tmp', self.fresh('t')), ())
        self.store[(tmp.root, ())] = v
        return tmp

    def upvar_frame(self, n):
        # closures are inlined with `closure_frames` mapping closure did -> defining frame;
        # a variable captured through several closure levels lives further up the definition chain
        f = self.closure_frames.get(n['closure'], self.frame)
        guard = 0
        while n['var'] not in self.frame_vars.get(f, ()) and f in self.frame_parent and guard < 50:
            f = self.frame_parent[f]
            guard += 1
        return f

    closure_frames = {}

    # ------------------------------------------------------------------ expressions
    def ev(self, n):
        if n is None:
            return None
        if self.dead:
            return T.sym('dead')
        k = n['k']
        m = getattr(self, 'ev_' + k, None)
        if m is None:
            self.note('thir-kind:' + k, n)
            return T.app('opaque:' + k)
        return m(n)

    def ev_Lit(self, n):
        lit = n.get('lit')
        if lit == 'int':
            v = T.num(int(n['v']))
            return T.neg(v) if n.get('neg') else v
        if lit == 'float':
            v = T.num(n['v'])
            return T.neg(v) if n.get('neg') else v
        if lit == 'bool':
            return T.TRUE if n['v'] else T.FALSE
        if lit == 'str':
            return T.sym('"' + n['v'] + '"')
        return T.sym('lit:' + str(n.get('v')))

    def ev_Var(self, n):
        return self.read(self.ev_place(n))

    ev_Upvar = ev_Var

    def ev_Field(self, n):
        inner = n['e']
        if inner['k'] in self.PLACE_KINDS:
            return self.read(self.ev_place(n))
        v = self.ev(inner)
        elem = n.get('name', n['idx'])
        if isinstance(elem, str) and elem.isdigit():
            elem = int(elem)
        return self.project(v, elem)

    def ev_Index(self, n):
        if n['e']['k'] in self.PLACE_KINDS:
            return self.read(self.ev_place(n))
        v = self.ev(n['e'])
        i = self.to_term(self.ev(n['i']))
        return self.project(v, ('idx', i))

    def ev_Deref(self, n):
        v = self.ev(n['e'])
        if isinstance(v, Ref):
            return self.read(v.place)
        return v

    def ev_Borrow(self, n):
        e = n['e']
        if e['k'] in self.PLACE_KINDS:
            p = self.ev_place(e)
            if p.root[0] == 'tmp':
                return self.store.get((p.root, ()), None) if not p.path else self.read(p)
            cur = self.store.get((p.root, p.path))
            if isinstance(cur, Ref):
                # (re)borrow of a variable that itself holds a reference / view: the referent is what matters
                return cur
            return Ref(p, bool(n.get('mut')))
        return self.ev(e)

    ev_RawBorrow = ev_Borrow

    def ev_Coerce(self, n):
        return self.ev(n['e'])

    def ev_ByUse(self, n):
        return self.ev(n['e'])

    def ev_Cast(self, n):
        v = self.ev(n['e'])
        if n['e']['ty'] == 'bool':
            return T.ite(self.to_term(v), T.ONE, T.ZERO)
        return v

    def ev_Unary(self, n):
        v = self.to_term(self.ev(n['e']))
        if n['op'] == 'Neg':
            return T.neg(v)
        if n['op'] == 'Not':
            if n['ty'] == 'bool':
                return T.lnot(v)
            return T.app('bitnot', v)
        return T.app('unary:' + n['op'], v)

    def arith(self, op, a, b):
        if op == 'Add':
            return T.add(a, b)
        if op == 'Sub':
            return T.sub(a, b)
        if op == 'Mul':
            return T.mul(a, b)
        if op == 'Div':
            return T.div(a, b)
        return T.app(op.lower(), a, b)

    def ev_Binary(self, n):
        a = self.to_term(self.ev(n['l']))
        b = self.to_term(self.ev(n['r']))
        op = n['op']
        if op in ('Add', 'Sub', 'Mul', 'Div'):
            if op == 'Div' and is_int_ty(n['ty']):
                return T.app('idiv', a, b)
            return self.arith(op, a, b)
        if op in ('Lt', 'Le', 'Gt', 'Ge', 'Eq', 'Ne'):
            if is_int_ty(str(n['l'].get('ty', '')).lstrip('&')) and is_int_ty(str(n['r'].get('ty', '')).lstrip('&')):
                return T.icmp(op.lower(), a, b)         # integers: `>=` is the negation of `<`
            return T.cmp(op.lower(), a, b)
        if op == 'BitOr' and n['ty'] == 'bool':
            return T.lor(a, b)
        if op == 'BitAnd' and n['ty'] == 'bool':
            return T.land(a, b)
        return T.app(op.lower(), a, b)

    def ev_Logical(self, n):
        a = self.to_term(self.ev(n['l']))
        b = self.to_term(self.ev(n['r']))
        return T.land(a, b) if n['op'] == 'And' else T.lor(a, b)

    def ev_Tuple(self, n):
        vals = [self.ev(f) for f in n['fields']]
        if any(isinstance(v, (Ref, Clos, Seq, Tup)) for v in vals):
            return Tup(vals)
        return T.tup(*[self.to_term(v) for v in vals])

    def ev_Array(self, n):
        vals = [self.to_term(self.ev(f)) for f in n['fields']]
        # eta: [x[0], x[1], .., x[k-1]] with x: [T; k] is x itself (a fixed-size array rebuilt element by element)
        k = len(vals)
        if k and all(T.is_app(v, 'index') and v[2][0] is vals[0][2][0] and v[2][1] is T.num(i) for i, v in enumerate(vals)):
            m = re.match(r'\[.*;\s*(\d+)\]$', str(n.get('ty', '')).strip())
            if m and int(m.group(1)) == k and self.array_len_of(n['fields'][0]) == k:
                return vals[0][2][0]
        return T.app('array', *vals)

    def array_len_of(self, field_node):
        """static length k of the array indexed by the expression `x[i]` (THIR type `[T; k]` of x), or None"""
        e = field_node
        while isinstance(e, dict) and e.get('k') in ('Scope', 'Use', 'Borrow', 'Deref', 'Coerce') and isinstance(e.get('e'), dict):
            e = e['e']
        if isinstance(e, dict) and e.get('k') == 'Index' and isinstance(e.get('e'), dict):
            m = re.match(r'&?\s*\[.*;\s*(\d+)\]$', str(e['e'].get('ty', '')).strip())
            return int(m.group(1)) if m else None
        return None

    def ev_Repeat(self, n):
        return T.app('repeat', self.to_term(self.ev(n['value'])), T.sym(n['count']))

    def ev_Adt(self, n):
        name = strip_generics(n['adt'])
        if name in ('std::ops::Range', 'core::ops::Range'):
            f = {x['name']: self.to_term(self.ev(x['e'])) for x in n['fields']}
            return T.app('range', f['start'], f['end'])
        if name in ('std::result::Result', 'std::option::Option', 'core::result::Result', 'core::option::Option'):
            # Ok(x) / Some(x) are transparent value-wise (unwrap and `?` are aliases); the tag lives in is:* conditions
            v = n['variant']
            if v in ('Ok', 'Some') and len(n['fields']) == 1:
                return self.ev(n['fields'][0]['e'])
            if v == 'Err' and len(n['fields']) == 1:
                return T.app('Err', self.to_term(self.ev(n['fields'][0]['e'])))
            if v == 'None':
                return T.sym('None')
        fields = sorted(n['fields'], key=lambda f: f['idx'])
        # evaluate in source order (as written), build in field order
        vals = {}
        for f in n['fields']:
            vals[f['idx']] = self.ev(f['e'])
        items = []
        for f in fields:
            items.append(T.app('f:' + f['name'], self.to_term(vals[f['idx']])))
        v = n['variant']
        tag = name if v == name.split('::')[-1] else name + '::' + v
        if 'base' in n and isinstance(n['base'], dict):
            # struct update `S { f: v, ..b }`: b with f replaced -- the same value as assigning the field of a moved b
            out = self.to_term(self.ev(n['base']))
            for f in fields:
                out = with_set(out, f['name'], self.to_term(vals[f['idx']]))
            return out
        # a struct rebuilt from another value of the SAME type, some fields copied (`S { a: x.a, b: new }`) is that value with the
        # other fields replaced.  The copied fields are recognised on the THIR (field access on an expression of this ADT's type).
        if tag == name and len(fields) >= 2:
            srcs = {}
            for f in fields:
                bnode = self.copied_field_base(f['e'], f['name'], name)
                if bnode is not None:
                    srcs[f['name']] = bnode
            tv = {f['name']: self.to_term(vals[f['idx']]) for f in fields}
            cands = set()
            for fname in srcs:
                t_ = tv[fname]
                if T.is_app(t_, '.' + fname) and len(t_[2]) == 1:
                    cands.add(t_[2][0])
            # ... or on the terms when the copied value arrives through a helper's parameter: `.f(self)` with `self` the receiver of the
            # function under evaluation and that receiver's type this very ADT
            if not cands and getattr(self, 'root_self_head', None) == name:
                me = T.sym('self')
                for f in fields:
                    if tv[f['name']] is field_term(me, f['name']):
                        srcs[f['name']] = True
                        cands.add(me)
            if len(cands) == 1:
                base_t = list(cands)[0]
                copied = [fn_ for fn_ in srcs if tv[fn_] is field_term(base_t, fn_)]
                if copied:
                    out = base_t
                    for f in fields:
                        if f['name'] not in copied:
                            out = with_set(out, f['name'], tv[f['name']])
                    return out
        return T.app('adt:' + tag, *items)

    def copied_field_base(self, e, fname, adt):
        """`x.f` (possibly cloned / borrowed / copied) where x has the ADT type `adt`: returns the THIR node of x, else None"""
        for _ in range(8):
            if not isinstance(e, dict):
                return None
            k = e.get('k')
            if k in ('Scope', 'Use', 'Borrow', 'Deref', 'Coerce') and isinstance(e.get('e'), dict):
                e = e['e']
                continue
            if k == 'Call' and isinstance(e.get('fn'), dict) and callee_key(e['fn']) in ('std::clone::Clone::clone',) and e.get('args'):
                e = e['args'][0]
                continue
            break
        if isinstance(e, dict) and e.get('k') == 'Field' and e.get('name') == fname and strip_generics(e.get('adt', '')) == adt:
            return e.get('e')
        return None

    def ev_Closure(self, n):
        for u in n['upvars']:
            pass  # captured by reference to the shared store; nothing to evaluate
        c = Clos(n['def'], self.frame, n)
        return c

    def ev_Const(self, n):
        if n.get('local'):
            b = self.facts.body(n['def'])
            if b is not None and b.get('thir'):
                return self.ev(b['thir'])
        path = strip_generics(n['path'])
        if path.endswith('consts::PI'):
            return T.sym('pi')
        return T.sym('const:' + path)

    def ev_Zst(self, n):
        fn = n.get('fn')
        if fn:
            # a function item used as a value (e.g. `.map(Array2::view)`): remembered so that applying it dispatches like a call
            if not hasattr(self, 'fnitems'):
                self.fnitems = {}
            self.fnitems[callee_key(fn)] = fn
            return T.app('fnitem', T.sym(callee_key(fn)))
        return T.sym('zst:' + n['ty'])

    def ev_ConstParam(self, n):
        return T.sym('constparam:' + n['name'])

    def ev_Other(self, n):
        self.note('thir-other:' + n.get('dbg', ''), n)
        for kid in n.get('kids', []):
            self.ev(kid)
        return T.app('opaque:other')

    # ---- statements / blocks
    def ev_Block(self, n, start=0):
        if n.get('break_target') and start == 0 and not n.get('_in_scope'):
            # a labelled block `'a: { .. break 'a value .. tail }`: leaving it early is like returning from an inlined function
            if not hasattr(self, 'exit_tags'):
                self.exit_tags = {}
            lst = []
            self.fn_exits.append(lst)
            self.exit_tags[id(lst)] = n.get('label')
            n2 = dict(n)
            n2['_in_scope'] = True
            v = self.ev_Block(n2)
            tags = self.exit_tags
            if not lst:
                self.fn_exits.pop()
                tags.pop(id(lst), None)
                return v
            r = self.finish_fn(v)
            tags.pop(id(lst), None)
            return r
        stmts = n['stmts']
        for idx in range(start, len(stmts)):
            s = stmts[idx]
            if self.dead:
                break
            if s['k'] == 'Expr':
                self.ev(s['e'])
            else:
                init = s.get('init')
                if init is not None:
                    v = self.ev(init)
                    if self.dead:
                        break
                    if s.get('else') is not None:
                        # let-else: `let P = v else { diverge };  rest`  is  `if let P = v { rest } else { diverge }`
                        self.note('let-else', s)
                        cond = self.pat_cond(s['pat'], v)
                        if cond is not T.TRUE:
                            self.record_handled(s['pat'], v, s)

                            def then_fn(s=s, v=v, idx=idx):
                                self.bind(s['pat'], v)
                                return self.ev_Block(n, idx + 1)

                            return self.branch(cond, then_fn, lambda s=s: self.ev(s['else']))
                    self.bind(s['pat'], v)
                else:
                    self.bind_uninit(s['pat'])
        if self.dead:
            return T.sym('dead')
        if n.get('expr') is not None:
            return self.ev(n['expr'])
        return T.UNIT

    def bind_uninit(self, pat):
        if pat['k'] == 'Binding':
            self.write(self.var_place(pat['var'], pat['name']), T.sym('uninit:' + pat['name']))

    def ev_Assign(self, n):
        v = self.ev(n['r'])
        p = self.ev_place(n['l'])
        self.write(p, v)
        return T.UNIT

    def ev_AssignOp(self, n):
        r = self.to_term(self.ev(n['r']))
        p = self.ev_place(n['l'])
        cur = self.to_term(self.read(p))
        op = n['op'].replace('Assign', '')
        if op in ('Add', 'Sub', 'Mul', 'Div'):
            v = self.arith(op, cur, r)
        else:
            v = T.app(op.lower(), cur, r)
        self.write(p, v)
        return T.UNIT

    # ---- control flow
    def branch(self, cond, then_fn, else_fn):
        """evaluate two alternatives under cond / not cond and merge"""
        s0 = self.store
        self.store = dict(s0)
        n0 = len(self.pc)
        self.pc.append(cond)
        v1 = then_fn()
        keep1 = self.pc[n0:]        # cond + what the branch itself learnt by leaving through inner guards
        del self.pc[n0:]
        d1, s1 = self.dead, self.store
        self.dead = False
        self.store = dict(s0)
        self.pc.append(T.lnot(cond))
        v2 = else_fn()
        keep2 = self.pc[n0:]
        del self.pc[n0:]
        d2, s2 = self.dead, self.store
        # a branch that leaves (return / break / continue / panic) puts the rest of the enclosing block under the other
        # branch's condition: `if c { return } rest` runs `rest` under not c, exactly like `if !c { rest }`
        # (an arm that leaves on the error of a Result is the `?` operator written out: like `?`, it puts no condition on what follows --
        # what follows is the success path by construction, and rules read it with assume_ok)
        err_test = T.is_app(cond, 'is:Err') or (cond[0] == 'not' and T.is_app(cond[1], 'is:Err'))
        if err_test:
            pass
        elif d1 and not d2:
            self.pc.extend(keep2)
        elif d2 and not d1:
            self.pc.extend(keep1)
        if d1 and d2:
            self.dead = True
            self.store = s0
            return T.sym('dead')
        self.dead = False
        if d1:
            self.store = s2
            return v2
        if d2:
            self.store = s1
            return v1
        self.store = self.merge_store(cond, s1, s2)
        return self.merge_val(cond, v1, v2)

    def ev_If(self, n):
        c = n['cond']
        if c['k'] == 'Let':
            val = self.ev(c['e'])
            cond = self.pat_cond(c['pat'], val)
            self.record_handled(c['pat'], val, c)

            def then_fn():
                self.bind(c['pat'], val)
                return self.ev(n['then'])
        else:
            cond = self.to_term(self.ev(c))

            def then_fn():
                return self.ev(n['then'])

        def else_fn():
            return self.ev(n['else']) if n.get('else') is not None else T.UNIT

        return self.branch(cond, then_fn, else_fn)

    def ev_Let(self, n):
        # bare `let` expression outside an if-condition (let chains): evaluate as condition
        val = self.ev(n['e'])
        self.bind(n['pat'], val)
        return self.pat_cond(n['pat'], val)

    def record_handled(self, pat, val, node):
        if pat['k'] == 'Variant' and pat['variant'] in ('Err', 'Ok', 'Some', 'None'):
            self.discipline.append(('match', self.to_term(val), node.get('sp'), self.owner()))

    def ev_Match(self, n):
        src = n.get('source', '')
        if src.startswith('ForLoopDesugar'):
            return self.ev_for(n)
        if src.startswith('TryDesugar'):
            return self.ev_try(n)
        val = self.ev(n['scrut'])
        arms = n['arms']
        if len(arms) == 1 and arms[0].get('guard') is None:
            self.bind(arms[0]['pat'], val)
            return self.ev(arms[0]['body'])
        if any(a['pat']['k'] == 'Variant' and a['pat']['variant'] in ('Err', 'Ok', 'Some', 'None') for a in arms):
            self.discipline.append(('match', self.to_term(val), n.get('sp'), self.owner()))

        def go(i):
            if i == len(arms) - 1 and arms[i].get('guard') is None:
                self.bind(arms[i]['pat'], val)
                return self.ev(arms[i]['body'])
            if i >= len(arms):
                self.dead = True
                return T.sym('dead')
            a = arms[i]
            cond = self.pat_cond(a['pat'], val)
            if a.get('guard') is not None:
                self.bind(a['pat'], val)
                cond = T.land(cond, self.to_term(self.ev(a['guard'])))

            def then_fn():
                self.bind(a['pat'], val)
                return self.ev(a['body'])

            return self.branch(cond, then_fn, lambda: go(i + 1))

        return go(0)

    def ev_try(self, n):
        """`expr?` : value-wise the Ok/Some payload; the error edge is a function exit"""
        scr = n['scrut']
        inner = scr['args'][0] if scr['k'] == 'Call' and scr.get('args') else scr
        val = self.ev(inner)
        t = self.to_term(val)
        self.discipline.append(('try', t, n.get('sp'), self.owner()))
        errc = T.app('is:Err', t)
        # record an early error return (state = current store)
        if self.fn_exits:
            # (what `return Err(e)` in the Err arm of a match returns; the From conversion of the error is an alias here)
            self.fn_exit_list().append((T.land(*(self.pc + [errc])), T.app('Err', T.app('payload:Err', t)), dict(self.store)))
        if self.loop_exits:
            self.loop_exits[-1].append(('return', None, T.land(*(self.pc_since_loop() + [errc])), None))
        return val

    def pc_since_loop(self):
        base = self.loop_pc_base[-1] if self.loop_pc_base else 0
        return self.pc[base:]

    loop_pc_base = []

    def ev_Return(self, n):
        v = self.ev(n['value']) if n.get('value') is not None else T.UNIT
        if self.dead:
            return T.sym('dead')
        if self.fn_exits:
            self.fn_exit_list().append((T.land(*self.pc), v, dict(self.store)))
        if self.loop_exits:
            self.loop_exits[-1].append(('return', None, T.land(*self.pc_since_loop()), None))
        self.dead = True
        return T.sym('dead')

    def ev_Break(self, n):
        tags = getattr(self, 'exit_tags', {})
        blk = [lst for lst in self.fn_exits if tags.get(id(lst)) is not None and tags.get(id(lst)) == n.get('label')]
        if blk:
            # break out of a labelled block (possibly from inside loops in it): an early exit of that block with a value
            bv = self.ev(n['value']) if n.get('value') is not None else T.UNIT
            if self.dead:
                return T.sym('dead')
            blk[-1].append((T.land(*self.pc), bv, dict(self.store)))
            if self.loop_exits:
                self.loop_exits[-1].append(('return', None, T.land(*self.pc_since_loop()), None))
            self.dead = True
            return T.sym('dead')
        if n.get('value') is not None:
            bv = self.ev(n['value'])
            if getattr(self, 'break_values', None):
                self.break_values[-1].append(bv)
        if self.loop_exits:
            self.loop_exits[-1].append(('break', n.get('label'), T.land(*self.pc_since_loop()), dict(self.store)))
        self.dead = True
        return T.sym('dead')

    def ev_Continue(self, n):
        if self.loop_exits:
            self.loop_exits[-1].append(('continue', n.get('label'), T.land(*self.pc_since_loop()), dict(self.store)))
        self.dead = True
        return T.sym('dead')

    # ---- loops
    def run_loop_body(self, ls, body_fn):
        """two-pass evaluation of a loop body: discover carried places, then evaluate over
        loop-head symbols.  body_fn() evaluates one iteration in the current store."""
        s0 = self.store
        if self.disc_mode:
            # inside an enclosing discovery pass only the write set matters: one pass, no havoc
            self.loop_exits.append([])
            self.loop_pc_base = self.loop_pc_base + [len(self.pc)]
            npc = len(self.pc)
            res = body_fn()
            del self.pc[npc:]           # what one iteration learnt by leaving through a guard does not outlive it
            self.loop_exits.pop()
            self.loop_pc_base = self.loop_pc_base[:-1]
            self.dead = False
            return res
        ev0, lp0, dc0, nt0, rc0 = len(self.events), len(self.loops), len(self.discipline), len(self.notes), len(self.rec_calls)
        fe0 = [len(x) for x in self.fn_exits]
        uid0 = self.uid
        # pass 1: discovery
        self.store = dict(s0)
        self.loop_exits.append([])
        self.loop_pc_base = self.loop_pc_base + [len(self.pc)]
        outer_written = getattr(self, 'written', None)
        self.written = set()
        self.disc_mode += 1
        npc = len(self.pc)
        body_fn()
        del self.pc[npc:]
        self.disc_mode -= 1
        written = self.written
        self.written = outer_written if outer_written is not None else set()
        if outer_written is not None:
            outer_written |= written
        s1 = self.store
        changed = set()
        def var_of(k):
            # the position of a hand-advanced iterator lives and dies with the variable that holds the iterator
            return (k[0][1], k[1]) if k[0][0] == 'cursor' else k
        for k in set(s1) | set(s0):
            if k[0][0] == 'tmp':
                continue
            kv = var_of(k)
            if kv[0][0] == 'var' and kv[0][1] != self.frame and k not in s0:
                continue
            a, b = s0.get(k, None), s1.get(k, None)
            if k in s0 and (a is not b) and not (isinstance(a, Ref) and isinstance(b, Ref) and a == b):
                changed.add(k)
            elif k not in s0 and not (kv[0][0] == 'var' and self.is_loop_local(kv, s0)):
                changed.add(k)
        for k in written:
            if k[0][0] == 'tmp':
                continue
            kv = var_of(k)
            if k in s0 or kv[0][0] != 'var' or not self.is_loop_local(kv, s0):
                changed.add(k)
        # discard pass-1 side results
        del self.events[ev0:]
        del self.loops[lp0:]
        del self.discipline[dc0:]
        del self.notes[nt0:]
        del self.rec_calls[rc0:]
        for x, l in zip(self.fn_exits, fe0):
            del x[l:]
        self.loop_exits.pop()
        self.dead = False
        # pass 2: over loop-head symbols
        self.store = dict(s0)
        # a changed place subsumes its changed sub-places
        changed = set(k for k in changed if not any((k[0], k[1][:n]) in changed for n in range(len(k[1]))))
        inits = {}
        for k in changed:
            try:
                inits[k] = self.read(Place(*k))
            except Exception:
                inits[k] = None
        for k in sorted(changed, key=repr):
            cur = inits[k]
            if isinstance(cur, Ref) and not cur.mut and k[0][0] == 'var' and isinstance(s1.get(k), T.Tm):
                # a shared-reference variable that the body re-points at a computed value (`rest = &rest[k..]`): carried by value
                try:
                    cur = self.to_term(self.read(cur.place))
                except Exception:
                    pass
            ls.init[k] = cur
            if isinstance(cur, (Ref, Clos)):
                continue
            h = T.sym('lh%d:%s' % (ls.uid, keyrepr(k)))
            ls.lh[k] = h
            # remove deeper entries, then set
            self.write(Place(*k), h)
        self.loop_exits.append([])
        ev1 = len(self.events)
        self.loop_stack.append(ls.uid)
        res = body_fn()
        self.loop_stack.pop()
        body_pc = self.pc[npc:]
        del self.pc[npc:]
        ls.events = self.events[ev1:]
        raw_exits = self.loop_exits.pop()
        self.loop_pc_base = self.loop_pc_base[:-1]
        fall_dead = self.dead
        ls.falls_through = not fall_dead
        for k in ls.lh:
            ls.next[k] = self.read(Place(*k)) if not fall_dead else None
        # exit states: value of every carried place at each break
        end_store = self.store
        ls.exits = []
        ls.exit_states = []
        for ex in raw_exits:
            kind, label, cond, snap = ex
            ls.exits.append((kind, label, cond))
            st = {}
            if snap is not None:
                self.store = snap
                for k in ls.lh:
                    st[k] = self.read(Place(*k))
                self.store = end_store
            ls.exit_states.append(st)
        # the iteration-end values describe an iteration that reached its end: every test that would have left the loop was false on
        # that path (a helper that reports "stop" after leaving its state untouched, `if !acc.push(x) { break }`, merges the two
        # states under the very condition of the break)
        leave = {}
        for kind, label, cond in ls.exits:
            if kind in ('break', 'return') and isinstance(cond, T.Tm) and cond is not T.TRUE and cond[0] not in ('and',):
                leave[cond] = T.FALSE
                leave[T.lnot(cond)] = T.TRUE
        if leave and not fall_dead:
            for k in ls.lh:
                if isinstance(ls.next.get(k), T.Tm):
                    ls.next[k] = T.subst(ls.next[k], leave)
        # a `continue` just ends the iteration early: fold its state into the iteration-end values and drop the exit
        # (next := ite(cond_continue, state at the continue, fall-through state))
        keep_e, keep_s = [], []
        for (kind, label, cond), st in zip(ls.exits, ls.exit_states):
            if kind == 'continue' and st:          # (break / continue are attributed to the innermost loop throughout the engine)
                for k in ls.lh:
                    sv = st.get(k)
                    try:
                        svt = self.to_term(sv) if sv is not None else None
                    except Exception:
                        svt = None
                    if svt is None:
                        continue
                    nx = ls.next.get(k)
                    try:
                        nxt_ = self.to_term(nx) if nx is not None else None
                    except Exception:
                        nxt_ = None
                    ls.next[k] = svt if nxt_ is None else T.ite(cond, svt, nxt_)
                ls.falls_through = True
            else:
                keep_e.append((kind, label, cond))
                keep_s.append(st)
        ls.exits, ls.exit_states = keep_e, keep_s
        self.dead = False
        # after the loop: exit symbols
        self.store = dict(s0)
        for k in sorted(ls.lh, key=repr):
            x = T.sym('lx%d:%s' % (ls.uid, keyrepr(k)))
            ls.lx[k] = x
            self.write(Place(*k), x)
        return res

    def is_loop_local(self, k, s0):
        """a variable place that did not exist (nor any enclosing place of it) before the loop"""
        root, path = k
        return not any((root, path[:n]) in s0 for n in range(len(path) + 1))

    def new_loop(self, kind, node):
        self.uid += 1
        ls = LoopSum(self.uid)
        ls.kind = kind
        ls.owner = self.owner()
        ls.sp = node.get('sp') if node else None
        ls.ctx = tuple(self.loop_stack)
        ls.pc = tuple(self.pc_outer + self.pc)      # path condition under which the loop is reached (conditions of enclosing loops' bodies included)
        self.loops.append(ls)
        return ls

    def ev_Loop(self, n):
        ls = self.new_loop('loop', n)
        if not hasattr(self, 'break_values'):
            self.break_values = []
        self.break_values.append([])

        def body():
            del self.break_values[-1][:]          # keep the values of the last (summarising) pass only
            return self.ev(n['body'])
        self.run_loop_body(ls, body)
        bvs = self.break_values.pop()
        lhs0 = dict(ls.lh)
        exit_at_head = len(ls.exits) == 1 and ls.exit_states and all(v is lhs0.get(k) for k, v in (ls.exit_states[0] or {}).items() if k in lhs0 and isinstance(v, T.Tm))
        if not self.disc_mode:
            self.counted_while(ls)
        # `loop { .. break value .. }`: the value of the loop expression
        if len(bvs) == 1:
            v = bvs[0]
            if isinstance(v, Ref):
                return v                    # a reference to a place: read after the loop, it sees the loop's exit state
            if isinstance(v, T.Tm) and exit_at_head:
                m = {lhs0[k]: ls.lx[k] for k in lhs0 if isinstance(ls.lx.get(k), T.Tm)}
                if getattr(ls, 'counter_key', None) is not None and ls.var is not None and isinstance(ls.n, T.Tm):
                    pass
                return T.subst(v, m) if m else v
            # the value is computed in the iteration that leaves: it is what a variable assigned in every iteration would hold at
            # the exit (`let r = loop { ..; if done { break v } }` is `let mut r; loop { ..; r = v; if done { break } }`) -- a synthetic
            # carried place per component, so that rules about "the value of the last iteration" see either spelling
            is_tt = isinstance(v, T.Tm) and v[0] == 'tuple'
            comps = v.items if isinstance(v, Tup) else (list(v[1]) if is_tt else [v])
            try:
                terms = [self.to_term(c) for c in comps]
            except Exception:
                terms = None
            if terms is not None and not self.disc_mode:
                outs = []
                for j, t_ in enumerate(terms):
                    key = (('loopval', ls.uid, j), ())
                    ls.lh[key] = T.sym('lh%d:loopval%d' % (ls.uid, j))
                    ls.init[key] = T.sym('uninit:loopval')
                    ls.next[key] = t_
                    ls.lx[key] = T.sym('lx%d:loopval%d' % (ls.uid, j))
                    outs.append(ls.lx[key])
                return Tup(outs) if isinstance(v, Tup) else (T.tup(*outs) if is_tt else outs[0])
            if isinstance(v, T.Tm):
                return T.sym('loopval%d' % ls.uid)
            return v
        if bvs:
            return T.sym('loopval%d' % ls.uid)
        return T.UNIT

    def counted_while(self, ls):
        """`let mut c = c0; while c < N { body; c += 1 }` (N invariant, one exit at the head, counter stepped once and unconditionally)
        is the counted loop `for k in 0..N-c0` with c = c0 + k: give it the summary of a for-loop so that every rule about counted
        loops applies to either spelling."""
        if ls.kind != 'loop' or not ls.exits or ls.n is not None:
            return
        if len(ls.exits) > 1 and ls.exit_states and len(ls.exit_states) == len(ls.exits):
            # the exit at the loop head first (a `let .. else { break }` at the top records it after the exits of the code below it)
            def at_head(i):
                st_ = ls.exit_states[i] or {}
                # (the position of a hand-advanced iterator has already moved when `next()` reports the end: past the end there is
                # nothing to observe, so that does not count as a change)
                return ls.exits[i][0] == 'break' and ls.exits[i][2][0] == 'not' and all(v is ls.lh.get(k_) or k_[0][0] == 'cursor' for k_, v in st_.items() if k_ in ls.lh and isinstance(v, T.Tm))
            heads = [i for i in range(len(ls.exits)) if at_head(i)]
            if len(heads) == 1 and heads[0] != 0:
                i = heads[0]
                ls.exits.insert(0, ls.exits.pop(i))
                ls.exit_states.insert(0, ls.exit_states.pop(i))
        if ls.exits[0][0] != 'break':
            return
        # further exits are allowed only for the hand-advanced-iterator spelling of a `for` with a `break` in it
        # (`loop { let Some(x) = it.next() else { break }; .. if c { break } .. }`): they stay exits of the counted loop
        extra_exits = list(zip(ls.exits[1:], ls.exit_states[1:] if ls.exit_states else []))
        if extra_exits and not any(k_[0][0] == 'cursor' and ls.next.get(k_) is T.add(ls.lh[k_], T.ONE) for k_ in ls.lh if isinstance(k_[0], tuple)):
            return
        st = ls.exit_states[0] if ls.exit_states else {}
        if any(v is not ls.lh.get(k) and not (isinstance(k[0], tuple) and k[0][0] == 'cursor') for k, v in (st or {}).items() if k in ls.lh and isinstance(v, T.Tm)):
            return                      # the exit is not at the loop head
        lhs = set(ls.lh.values())
        cond = ls.exits[0][2]
        # count-down: `let mut c = N; while c > 0 { c -= 1; body }` is `for k in 0..N` with c = N - k at the head
        for k, lh in ls.lh.items():
            nx, c0 = ls.next.get(k), ls.init.get(k)
            if isinstance(nx, T.Tm) and isinstance(c0, T.Tm) and nx is T.sub(lh, T.ONE) and cond is T.lnot(T.cmp('gt', lh, T.ZERO)) and not any(x in lhs for x in T.subterms(c0)):
                it = T.sym('it%d' % ls.uid)
                m = {lh: T.sub(c0, it)}
                cont = T.cmp('gt', T.sub(c0, it), T.ZERO)
                for k2 in list(ls.next):
                    if isinstance(ls.next[k2], T.Tm) and k2 is not k:
                        ls.next[k2] = T.subst(ls.next[k2], m)
                for e in ls.events:
                    e.args = [T.subst(a, m) if isinstance(a, T.Tm) else a for a in e.args]
                    if isinstance(getattr(e, 'res', None), T.Tm):
                        e.res = T.subst(e.res, m)
                    e.pc = tuple(c2 for c2 in (T.subst(c, m) for c in e.pc) if c2 is not cont)
                self.discipline[:] = [(d[0], T.subst(d[1], m) if isinstance(d[1], T.Tm) else d[1]) + tuple(d[2:]) for d in self.discipline]
                ls.kind, ls.var, ls.n, ls.elem, ls.seq_desc = 'for', it, c0, it, 'range'
                ls.counter_key = k
                ls.exits, ls.exit_states = [], []
                for dct in (ls.lh, ls.next, ls.init, ls.lx):
                    dct.pop(k, None)
                self.close_accumulators(ls)
                return
        # `while v.len() < N { v.push(x) }` from an empty vector: the length is the counter
        for k, lh in ls.lh.items():
            nx, c0 = ls.next.get(k), ls.init.get(k)
            if isinstance(nx, T.Tm) and T.is_app(nx, 'push') and nx[2][0] is lh and c0 is T.app('array') and cond[0] == 'not' and cond[1][0] == 'cmp' and cond[1][1] == 'gt':
                ln = T.app('len', lh)
                N = T.add(cond[1][2], ln)
                if not any(x in lhs for x in T.subterms(N)) and cond is T.lnot(T.cmp('lt', ln, N)):
                    it = T.sym('it%d' % ls.uid)
                    m = {ln: it}
                    for k2 in list(ls.next):
                        if isinstance(ls.next[k2], T.Tm):
                            ls.next[k2] = T.subst(ls.next[k2], m)
                    for e in ls.events:
                        e.args = [T.subst(a, m) if isinstance(a, T.Tm) else a for a in e.args]
                        if isinstance(getattr(e, 'res', None), T.Tm):
                            e.res = T.subst(e.res, m)
                        e.pc = tuple(c2 for c2 in (T.subst(c, m) for c in e.pc) if c2 is not T.cmp('lt', it, N))
                    ls.kind, ls.var, ls.n, ls.elem, ls.seq_desc = 'for', it, N, it, 'range'
                    ls.exits, ls.exit_states = [], []
                    self.close_accumulators(ls)
                    return
        for k, lh in ls.lh.items():
            nx, c0 = ls.next.get(k), ls.init.get(k)
            if not (isinstance(nx, T.Tm) and isinstance(c0, T.Tm) and nx is T.add(lh, T.ONE)):
                continue
            if any(x in lhs for x in T.subterms(c0)):
                continue
            # exit test: not (c < N)
            N = None
            for cand in T.subterms(cond):
                pass
            if cond[0] == 'not' and cond[1][0] == 'cmp' and cond[1][1] == 'gt':
                d = T.add(cond[1][2], lh)          # (N - c) + c = N
                if not any(x in lhs for x in T.subterms(d)) and cond is T.lnot(T.cmp('lt', lh, d)):
                    N = d
            if N is None:
                continue
            it = T.sym('it%d' % ls.uid)
            m = {lh: T.add(c0, it)}
            for k2 in list(ls.next):
                if isinstance(ls.next[k2], T.Tm) and k2 is not k:
                    ls.next[k2] = T.subst(ls.next[k2], m)
            cont = T.subst(T.cmp('lt', lh, N), m)       # holds on every iteration of the counted loop: not a condition of the body
            for e in ls.events:
                e.args = [T.subst(a, m) if isinstance(a, T.Tm) else a for a in e.args]
                if isinstance(getattr(e, 'res', None), T.Tm):
                    e.res = T.subst(e.res, m)
                e.pc = tuple(c2 for c2 in (T.subst(c, m) for c in e.pc) if c2 is not cont)
            self.discipline[:] = [(d[0], T.subst(d[1], m) if isinstance(d[1], T.Tm) else d[1]) + tuple(d[2:]) for d in self.discipline]
            ls.kind, ls.var, ls.n, ls.elem, ls.seq_desc = 'for', it, T.sub(N, c0), T.add(c0, it), 'range'
            if isinstance(k[0], tuple) and k[0][0] == 'cursor':
                held = self.store.get((k[0][1], k[1]))
                if isinstance(held, Seq):           # walking a sequence by hand is the `for` over that sequence
                    ls.seq_desc = held.desc
                    try:
                        ls.elem = held.elem(T.add(c0, it))
                    except Exception:
                        pass
            ls.counter_key = k
            def drop_cont(c):
                c = T.subst(c, m) if isinstance(c, T.Tm) else c
                if isinstance(c, T.Tm) and c[0] == 'and':
                    rest = [x for x in c[1] if x is not cont]
                    return T.land(*rest) if rest else T.TRUE
                return c
            ls.exits = [(kd, lb, drop_cont(c)) for (kd, lb, c), _ in extra_exits]
            ls.exit_states = [{k3: (T.subst(v, m) if isinstance(v, T.Tm) else v) for k3, v in (st_ or {}).items()} for _, st_ in extra_exits]
            for dct in (ls.lh, ls.next, ls.init, ls.lx):      # the counter is the iteration variable now, not carried state
                dct.pop(k, None)
            self.close_accumulators(ls)
            return

    def ev_for(self, n):
        """for pat in iter { body } (ForLoopDesugar match)"""
        scr = n['scrut']
        itv = self.ev(scr['args'][0]) if scr['k'] == 'Call' else self.ev(scr)
        seq = self.as_seq(itv, scr)
        loop = n['arms'][0]['body']
        # dig out: Loop{ body: Block{ stmts:[Expr(Match(next, [None=>break, Some(pat)=>body]))] } }
        inner = loop
        while inner['k'] == 'Block' and inner.get('expr') is not None and not inner['stmts']:
            inner = inner['expr']
        assert inner['k'] == 'Loop', inner['k']
        blk = inner['body']
        m = None
        if blk['k'] == 'Block':
            cand = blk['stmts'][0]['e'] if blk['stmts'] else blk.get('expr')
            m = cand
        assert m is not None and m['k'] == 'Match', 'for-loop shape'
        some = [a for a in m['arms'] if a['pat']['k'] == 'Variant' and a['pat']['variant'] == 'Some'][0]
        pat = some['pat']['subs'][0]['pat']
        body = some['body']
        return self.loop_over(seq, lambda elem: (self.bind(pat, elem), self.ev(body))[1], n)

    def loop_over(self, seq, body_fn, node, kind='for'):
        ls = self.new_loop(kind, node)
        ls.n = seq.n
        ls.seq_desc = seq.desc
        k = T.sym('it%d' % ls.uid)
        ls.var = k

        def one():
            elem = seq.elem(k)
            ls.elem = elem
            stop = getattr(seq, 'stop', None)
            if stop is not None:
                # take_while(pred): leave the loop at the first element that fails pred, before the body runs
                def brk():
                    if self.loop_exits:
                        self.loop_exits[-1].append(('break', None, T.land(*self.pc_since_loop()), dict(self.store)))
                    self.dead = True
                    return T.sym('dead')
                self.branch(T.lnot(stop(elem)), brk, lambda: T.UNIT)
            return body_fn(elem)

        res = self.run_loop_body(ls, one)
        ls.result = res
        if not self.disc_mode:
            self.induction_subst(ls)
        if kind == 'for' and not self.disc_mode and getattr(ls, 'result_term', None) is None:
            # `for x in xs { v.push(f(x)) }` into an empty Vec builds the same collection as xs.map(f).collect(): record the
            # element so that rules about per-element construction see one shape
            accs = [k_ for k_ in ls.lh if T.is_app(ls.next.get(k_), 'push') and ls.next[k_][2][0] is ls.lh[k_] and ls.init.get(k_) is T.app('array')]
            if len(accs) == 1 and not ls.exits:
                ls.result_term = ls.next[accs[0]][2][1]
                ls.collect_key = accs[0]
        self.close_accumulators(ls)
        return T.UNIT

    def induction_subst(self, ls):
        """secondary induction variables of a counted loop: a carried integer place stepped by a constant in every iteration
        (`pos += 1`, a hand-advanced iterator's position) has the value init + step * k at iteration k; every other summary term
        is rewritten accordingly, so `rows.next()` / `out[pos]` with a running `pos` and `out[k]` have one form"""
        if ls.var is None or ls.n is None or any(e[0] in ('break', 'continue') for e in ls.exits):
            return
        lhs = set(ls.lh.values())
        m = {}
        for k, lh in ls.lh.items():
            nx, c0 = ls.next.get(k), ls.init.get(k)
            if not (isinstance(nx, T.Tm) and isinstance(c0, T.Tm)):
                continue
            if any(x in lhs for x in T.subterms(c0)):
                continue
            if T.is_app(nx, 'index') and nx[2][0] is lh and T.is_app(nx[2][1], 'range') and nx[2][1][2][1] is seq_len(lh):
                # a shrinking slice `rest = &rest[c..]` with an invariant c: at iteration k it is init[c*k..]
                c = nx[2][1][2][0]
                if not any(x in lhs or x is ls.var for x in T.subterms(c)):
                    m[lh] = T.app('index', c0, T.app('range', T.mul(c, ls.var), seq_len(c0)))
                continue
            step = T.sub(nx, lh)
            if any(x in lhs or x is ls.var for x in T.subterms(step)) or step is T.ZERO:
                continue
            if k[0][0] == 'cursor':
                pass                # position of a hand-advanced iterator: an integer stepped by an invariant amount
            elif not (T.is_num(step) and T.numval(step) == int(T.numval(step)) and T.is_num(c0)):
                continue            # (other counters: literal start and step only; floats accumulate differently)
            m[lh] = T.add(c0, T.mul(step, ls.var))
        if not m:
            return
        ls.induction = {k for k, lh in ls.lh.items() if lh in m}       # closed counters: bookkeeping of the loop form, not state
        keep = {lh for lh in m}
        for k in list(ls.next):
            if isinstance(ls.next[k], T.Tm) and ls.lh.get(k) not in keep:
                ls.next[k] = T.subst(ls.next[k], m)
        if isinstance(getattr(ls, 'result_term', None), T.Tm):
            ls.result_term = T.subst(ls.result_term, m)
        for e in ls.events:
            e.args = [T.subst(a, m) if isinstance(a, T.Tm) else a for a in e.args]
            e.pc = tuple(T.subst(c, m) for c in e.pc)
            if isinstance(getattr(e, 'res', None), T.Tm):
                e.res = T.subst(e.res, m)
        ls.exits = [(kd, lb, T.subst(c, m) if isinstance(c, T.Tm) else c) for kd, lb, c in ls.exits]
        sub = lambda t: T.subst(t, m) if isinstance(t, T.Tm) else t
        self.discipline[:] = [(d[0], sub(d[1])) + tuple(d[2:]) for d in self.discipline]      # (result-discipline facts name the same call terms)
        for inner in self.loops:            # loops nested in this one were summarised over this loop's head symbols
            if ls.uid not in inner.ctx:
                continue
            for dct in (inner.init, inner.next, inner.lx):
                for k2 in list(dct):
                    dct[k2] = sub(dct[k2])
            inner.n = sub(inner.n)
            if isinstance(getattr(inner, 'result_term', None), T.Tm):
                inner.result_term = sub(inner.result_term)
            inner.exits = [(kd, lb, sub(c)) for kd, lb, c in inner.exits]
            inner.pc = tuple(sub(c) for c in getattr(inner, 'pc', ()))

    def close_accumulators(self, ls, only=None):
        """A carried place with next = lh + g(k) (g free of loop-head symbols) has the exit value
        init + sum_k g(k); next = push(lh, g(k)) gives concat(init, [g(k)])."""
        res = None
        for k in ([only] if only else list(ls.lh)):
            if k not in ls.lh:
                continue
            lh, nxt = ls.lh[k], ls.next.get(k)
            if isinstance(nxt, T.Tm):
                closed = self.close_form(ls, lh, nxt, ls.init.get(k))
                if closed is not None:
                    self.write(Place(*k), closed)
                    ls.lx[k] = closed
            if k == only:
                res = self.read(Place(*k))
        return res

    def close_form(self, ls, lh, nxt, init):
        if init is None or not isinstance(init, T.Tm) or ls.n is None:
            return None
        if any(e[0] in ('break', 'continue') for e in ls.exits):
            return None
        lhs = set(ls.lh.values())

        def free(t):
            return not any(x in lhs for x in T.subterms(t))

        if nxt == lh:
            return init
        if nxt[0] == 'tuple' and init[0] == 'tuple' and len(nxt[1]) == len(init[1]):
            # tuple accumulator (e.g. unzip by fold): close component-wise
            comps = []
            for j, (nj, ij) in enumerate(zip(nxt[1], init[1])):
                pj = T.proj(lh, j)
                hj = T.sym('lhc%d:%d' % (ls.uid if hasattr(ls, 'uid') else 0, j))
                nj2 = T.subst(nj, {pj: hj})
                if any(x is lh for x in T.subterms(nj2)):
                    return None
                sub = type('L', (), {})()
                sub.lh = {None: hj}
                sub.lh.update({k: v for k, v in ls.lh.items() if v is not lh})
                sub.n, sub.var, sub.exits = ls.n, ls.var, ls.exits
                cj = self.close_form(sub, hj, nj2, ij)
                if cj is None:
                    return None
                comps.append(cj)
            return T.tup(*comps)
        d = T.sub(nxt, lh)
        if free(d) and nxt[0] in ('poly', 'num', 'app', 'sym', 'ite'):
            if T.is_app(nxt) and not nxt[0] == 'poly':
                return None
            is_cursor = any(v is lh and isinstance(k_, tuple) and isinstance(k_[0], tuple) and k_[0][0] == 'cursor' for k_, v in getattr(ls, 'lh', {}).items() if k_ is not None)
            if not any(x is ls.var for x in T.subterms(d)) and (T.is_num(d) or is_cursor):
                return T.add(init, T.mul(ls.n, d))         # a constant step: init + n * step (integers: an iterator position, a literal step)
            return T.add(init, T.app('sum', mk_comp(ls.n, ls.var, d)))
        if T.is_app(nxt, 'upd') and nxt[2][0] is lh and nxt[2][1] is ls.var and ls.n is not seq_len(init) and T.is_app(ls.n, 'min') and seq_len(init) in ls.n[2]:
            # the same over a PREFIX of the container (`for (slot, x) in buf.iter_mut().zip(xs) { *slot = f(x) }` with a shorter xs):
            # the first n elements are mapped, the rest keep their initial value
            v2 = T.subst(nxt[2][2], {index_term(lh, ls.var): index_term(init, ls.var)})
            if free(v2):
                return mk_comp(seq_len(init), ls.var, T.ite(T.cmp('lt', ls.var, ls.n), v2, index_term(init, ls.var)))
        if T.is_app(nxt, 'upd') and nxt[2][0] is lh and nxt[2][1] is ls.var and ls.n is seq_len(init):
            # in-place element-wise map over the whole container: x[k] := f(x[k], k) for k in 0..len(x); iteration k reads only
            # its own (still initial) element, so the exit value is the comprehension of f over the initial elements
            v2 = T.subst(nxt[2][2], {index_term(lh, ls.var): index_term(init, ls.var)})
            if free(v2):
                return mk_comp(ls.n, ls.var, v2)
        if T.is_app(nxt, 'index') and nxt[2][0] is lh and T.is_app(nxt[2][1], 'range') and nxt[2][1][2][1] is seq_len(lh) and free(nxt[2][1][2][0]) \
                and not any(x is ls.var for x in T.subterms(nxt[2][1][2][0])):
            # a shrinking slice `rest = &rest[c..]`: after n iterations it is init[c*n..]
            return T.app('index', init, T.app('range', T.mul(nxt[2][1][2][0], ls.n), seq_len(init)))
        if T.is_app(nxt, 'push') and nxt[2][0] == lh and free(nxt[2][1]):
            c = mk_comp(ls.n, ls.var, nxt[2][1])
            if init == T.app('array'):
                return c
            return T.app('concat', init, c)
        if T.is_app(nxt, 'push') and nxt[2][0] == lh and init == T.app('array') and hasattr(ls, 'uid') and not any(x is lh for x in T.subterms(nxt[2][1])):
            # one element per iteration computed from carried state (a generator, a running value): the same collection that
            # `map(..).collect()` over a stateful closure builds -- elements in iteration order, marked with the loop they come from
            return T.app('eff', mk_comp(ls.n, ls.var, nxt[2][1]), T.sym('loop%d' % ls.uid))
        return None

    def as_seq(self, v, node=None):
        v0 = v
        if isinstance(v, Seq):
            return v
        if isinstance(v, Ref):
            # iterate a collection place by reference: elements are references to element places
            place, mut = v.place, v.mut
            cur = self.read(place)
            if isinstance(cur, Seq):
                return cur
            n = seq_len(self.to_term(cur))
            return Seq(n, lambda i: Ref(Place(place.root, place.path + (('idx', i),)), mut), 'iter(&%s)' % keyrepr(place), src=self.to_term(cur))
        t = self.to_term(v)
        if T.is_app(t, 'range'):
            lo, hi = t[2]
            return Seq(T.sub(hi, lo), lambda i: T.add(lo, i), 'range', src=t)
        if T.is_app(t, 'adt:std::ops::RangeFrom') and len(t[2]) == 1 and T.is_app(t[2][0], 'f:start'):
            lo = t[2][0][2][0]
            return Seq(T.sym('inf'), lambda i: T.add(lo, i), 'range_from', src=t)      # `lo..`: unbounded counter
        if T.is_app(t, 'comp'):
            n, lam = t[2]
            return Seq(n, lambda i: inst_comp(t, i), 'comp', src=t)
        return Seq(seq_len(t), lambda i: index_term(t, i), 'iter', src=t)

    # ---- calls
    def ev_Call(self, n):
        fn = n.get('fn')
        if fn is None:
            # call through a value (closure / fn pointer)
            f = self.ev(n['fun_expr'])
            args = [self.ev(a) for a in n['args']]
            if isinstance(f, Clos):
                return self.apply_closure(f, args)
            return self.default_call('call_value', [f] + args, n)
        key = callee_key(fn)
        h = self.semtab.lookup(key, fn)
        if h is not None and getattr(h, 'lazy', False):
            return h(self, n, fn, None)
        args = [self.ev(a) for a in n['args']]
        if self.dead:
            return T.sym('dead')
        # closure call via Fn* traits
        if key in ('std::ops::FnOnce::call_once', 'std::ops::FnMut::call_mut', 'std::ops::Fn::call'):
            f = self.deref(args[0])
            if isinstance(f, Clos):
                a = args[1]
                items = a.items if isinstance(a, Tup) else (list(a[1]) if isinstance(a, T.Tm) and a[0] == 'tuple' else [a])
                return self.apply_closure(f, items)
        return self.dispatch_call(fn, key, h, args, n)

    def apply_fn_item(self, ft, args, node):
        """apply a function-item value fnitem(<callee>) to evaluated arguments: same dispatch as a direct call"""
        fn = getattr(self, 'fnitems', {}).get(ft[2][0][1]) if T.is_app(ft, 'fnitem') and ft[2] and ft[2][0][0] == 'sym' else None
        if fn is None:
            return None
        key = callee_key(fn)
        h = self.semtab.lookup(key, fn)
        if h is not None and getattr(h, 'lazy', False):
            return None
        return self.dispatch_call(fn, key, h, list(args), node or {})

    def dispatch_call(self, fn, key, h, args, n):
        if h is not None:
            return h(self, n, fn, args)
        # crate-local functions: inline
        target = None
        if fn.get('local') and fn.get('container') != 'trait':
            target = fn['did']
        elif fn.get('resolved_local'):
            target = fn['resolved_did']
        elif fn.get('local') and fn.get('container') == 'trait':
            # a provided method of a PRIVATE crate trait that no impl overrides (an extension trait with a blanket impl): its one body
            tb = self.facts.body(fn['did'])
            if tb is not None and tb.get('thir') is not None and 'Restricted' in str(tb.get('vis', '')):
                tr = strip_generics(tb.get('trait') or '')
                if not any(b2.get('container') == 'trait_impl' and b2.get('name') == tb.get('name') and strip_generics(b2.get('trait') or '') == tr for b2 in self.facts.bodies):
                    target = fn['did']
        if target is not None and self.inline:
            body = self.facts.body(target)
            if body is not None and body.get('thir') is not None:
                spath = strip_generics(body['path'])
                if target in self.inline_stack:
                    return self.recursive_call(body, args, n)
                if spath not in self.no_inline and len(self.inline_stack) < self.MAX_INLINE_DEPTH:
                    return self.inline_call(body, args, n)
        return self.default_call(key, args, n, fn)

    def inline_call(self, body, args, node):
        frame = self.new_frame()
        saved = self.frame
        self.frame = frame
        self.owner_stack.append(strip_generics(body['path']))
        self.inline_stack.append(body['did'])
        self.fn_exits.append([])
        saved_pc = self.pc
        saved_outer = self.pc_outer
        self.pc_outer = saved_outer + list(saved_pc)     # events inside the callee happen under the caller's path condition too
        self.pc = []
        saved_le, saved_lb = self.loop_exits, self.loop_pc_base
        self.loop_exits, self.loop_pc_base = [], []
        for p, a in zip(body.get('params') or [], args):
            if p.get('pat') is not None:
                self.bind(p['pat'], a)
        v = self.ev(body['thir'])
        ret = self.finish_fn(v)
        self.loop_exits, self.loop_pc_base = saved_le, saved_lb
        self.pc = saved_pc
        self.pc_outer = saved_outer
        self.inline_stack.pop()
        self.owner_stack.pop()
        self.frame = saved
        return ret

    def recursive_call(self, body, args, node):
        self.uid += 1
        name = strip_generics(body['path'])
        targs = []
        for a in args:
            targs.append(self.to_term(a))
        res = T.app('rec:%s#%d' % (name, self.uid), *targs)
        for i, a in enumerate(args):
            if isinstance(a, Ref) and a.mut:
                self.write(a.place, T.app('post%d' % i, res))
        self.rec_calls.append((name, targs, res, tuple(self.pc_outer + self.pc), node.get("sp")))
        self.events.append(Event(op='rec:' + name, args=targs, res=res, pc=tuple(self.pc_outer + self.pc), loops=tuple(self.loop_stack), sp=node.get('sp'), owner=self.owner(), key=name))
        return res

    def apply_closure(self, clos, args):
        body = self.facts.body(clos.did)
        if body is None:
            return T.app('closure_call', T.sym(clos.did), *[self.to_term(a) for a in args])
        frame = self.new_frame()
        saved = self.frame
        self.frame = frame
        self.frame_parent[frame] = clos.frame
        old = self.closure_frames
        self.closure_frames = dict(old)
        self.closure_frames[clos.did] = clos.frame
        self.fn_exits.append([])
        saved_pc = self.pc
        saved_le, saved_lb = self.loop_exits, self.loop_pc_base
        self.loop_exits, self.loop_pc_base = [], []
        params = body.get('params') or []
        # first param of a closure body is the closure environment itself
        ps = [p for p in params if p.get('pat') is not None]
        for p, a in zip(ps, args):
            self.bind(p['pat'], a)
        self.owner_stack.append(self.owner())
        v = self.ev(body['thir'])
        ret = self.finish_fn(v)
        self.owner_stack.pop()
        self.loop_exits, self.loop_pc_base = saved_le, saved_lb
        self.pc = saved_pc
        self.closure_frames = old
        self.frame = saved
        return ret

    def default_call(self, key, args, node, fn=None, op=None):
        """uninterpreted call: result is an app term; &mut arguments receive a post-state"""
        targs = [self.to_term(a) for a in args]
        opname = op or key
        res = T.app(opname, *targs)
        for i, a in enumerate(args):
            if isinstance(a, Ref) and a.mut:
                self.write(a.place, T.app('post%d' % i, res))
        self.events.append(Event(op=opname, key=key, args=targs, res=res, pc=tuple(self.pc_outer + self.pc), loops=tuple(self.loop_stack),
                                 sp=node.get('sp') if node else None, owner=self.owner(), fn=fn,
                                 refs=[(a.place, a.mut) if isinstance(a, Ref) else None for a in args]))
        if node is not None and str(node.get('ty', '')).startswith('&mut ') and any(isinstance(a, Ref) for a in args):
            # an accessor handing out `&mut` into its receiver: model the referent as an abstract place
            recv = [a for a in args if isinstance(a, Ref)][0]
            return Ref(Place(('ext', '%s(%s)' % (opname.split('::')[-1], keyrepr(recv.place))), ()), True)
        return res

    def log(self, op, args, node, res=None, **kw):
        ev = Event(op=op, key=op, args=args, res=res, pc=tuple(self.pc_outer + self.pc), loops=tuple(self.loop_stack),
                   sp=node.get('sp') if node else None, owner=self.owner(), fn=None, refs=[], **kw)
        self.events.append(ev)
        return ev


# ---------------------------------------------------------------------- term helpers

def variant_payload(variant, t, field):
    """payload of `t` seen as `variant`: the constructor's field when the constructor is known (also through a choice between
    known constructors: the arm of another variant cannot be reached where the pattern matched), else an opaque payload:<variant>(t)"""
    if isinstance(t, T.Tm) and t[0] == 'ite':
        a, b = variant_payload(variant, t[2], field), variant_payload(variant, t[3], field)
        if not (T.is_app(a, 'payload:' + variant) or T.is_app(b, 'payload:' + variant)):
            return T.ite(t[1], a, b)
    if T.is_app(t) and t[1].startswith('adt:') and '::' in t[1]:
        if t[1].rsplit('::', 1)[1] != variant:
            return T.sym('unreachable:' + variant)
        for f in t[2]:
            if f[1] == 'f:' + str(field):
                return f[2][0]
    return T.app('payload:' + variant, t)


def variant_test(variant, t):
    """`t` matches `variant`: bounds test for v.get(i), otherwise an uninterpreted is:<variant>(t)"""
    if T.is_app(t, 'opt') and variant in ('Some', 'None'):
        return t[2][0] if variant == 'Some' else T.lnot(t[2][0])
    # a value whose constructor is known decides the test; a choice between such values distributes it
    # (`match Decision::from(c) { Accept => A, Reject => B }` with from(c) = if c { Accept } else { Reject } is `if c { A } else { B }`)
    if isinstance(t, T.Tm) and t[0] == 'ite':
        a, b = variant_test(variant, t[2]), variant_test(variant, t[3])
        if (a is T.TRUE or a is T.FALSE) and (b is T.TRUE or b is T.FALSE):
            return T.ite(t[1], a, b)
    if T.is_app(t) and t[1].startswith('adt:') and '::' in t[1]:
        return T.TRUE if t[1].rsplit('::', 1)[1] == variant else T.FALSE
    # two-variant std enums: one test and its negation, so that `match r { Ok(v) => A, Err(e) => B }`, `if let Err(e) = r { B } else { A }`
    # and `r?` put the same condition on the same path
    if variant == 'Ok':
        return T.lnot(T.app('is:Err', t))
    if variant == 'None':
        return T.lnot(T.app('is:Some', t))
    return T.app('is:' + variant, t)


def is_int_ty(ty):
    return ty in ('usize', 'isize', 'u8', 'u16', 'u32', 'u64', 'u128', 'i8', 'i16', 'i32', 'i64', 'i128')


def field_term(base, name):
    if str(name) == 'dims' and T.is_app(base, 'shape_t') and len(base[2]) == 1:
        return T.app('dims', base[2][0])          # tensor.shape().dims is tensor.dims()
    # with(base, set:f(v)) . f  ->  v
    if T.is_app(base, 'with'):
        for s in base[2][1:]:
            if s[1] == 'set:' + str(name):
                return s[2][0]
        if not any(s[1].startswith('set:' + str(name) + '.') for s in base[2][1:]):
            return field_term(base[2][0], name)
    if base[0] == 'app' and base[1].startswith('adt:'):
        for f in base[2]:
            if f[1] == 'f:' + str(name):
                return f[2][0]
    if base[0] == 'ite':
        return T.ite(base[1], field_term(base[2], name), field_term(base[3], name))
    return T.app('.' + str(name), base)


def index_term(base, i):
    if T.is_app(base, 'eff') and base[2] and T.is_app(base[2][0], 'comp'):
        return index_term(base[2][0], i)        # element of a collection built by an effectful pipeline: the element itself
    if T.is_app(base, 'upd') and base[2][1] == i:
        return base[2][2]
    if T.is_app(base, 'comp'):
        return inst_comp(base, i)
    if T.is_app(base, 'array') and T.is_num(i) and i[2] == 1 and 0 <= i[1] < len(base[2]):
        return base[2][i[1]]
    if T.is_app(base, 'repeat') and len(base[2]) == 2:
        return base[2][0]               # vec![x; n][i] is x
    if T.is_app(base, 'index') and len(base[2]) == 2 and T.is_app(base[2][1], 'range') and len(base[2][1][2]) == 2 and not T.is_app(i, 'range'):
        return index_term(base[2][0], T.add(base[2][1][2][0], i))       # x[a..b][i] is x[a + i]
    if base[0] == 'tuple' and T.is_num(i) and i[2] == 1 and 0 <= i[1] < len(base[1]):
        return base[1][i[1]]
    return T.app('index', base, i)


def with_set(base, sub, v):
    """functional record update, flattened: with(with(b, s1), s2) = with(b, s1, s2)"""
    sets = {}
    if T.is_app(base, 'with'):
        for s_ in base[2][1:]:
            sets[s_[1]] = s_
        base = base[2][0]
    key = 'set:' + sub
    # a write to a field overrides earlier writes to its sub-fields
    for k in [k for k in sets if k.startswith(key + '.')]:
        del sets[k]
    sets[key] = T.app(key, v)
    return T.app('with', base, *[sets[k] for k in sorted(sets)])


def upd_term(base, i, v):
    if T.is_app(base, 'upd') and base[2][1] == i:
        base = base[2][0]
    return T.app('upd', base, i, v)


def binder_height(t):
    h = 0
    for x in T.subterms(t):
        if x[0] == 'sym' and x[1].startswith('%b'):
            h = max(h, int(x[1][2:]))
    return h


def mk_comp(n, k, elem):
    """[elem | k < n] with canonical bound-variable naming (height based)"""
    # eta: [X[k] | k < len(X)] is X itself
    if T.is_app(elem, 'index') and elem[2][1] is k and not any(x is k for x in T.subterms(elem[2][0])) and n is seq_len(elem[2][0]):
        return elem[2][0]
    # [if k < a { A(k) } else { B(k - a) } | k < a + m]  is  A-part ++ B-part (`a.chain(b)` collected, `v = a; v.extend(b)`): one spelling
    if isinstance(elem, T.Tm) and elem[0] == 'ite' and elem[1][0] == 'cmp' and elem[1][1] == 'gt':
        a = T.add(elem[1][2], k)            # the test is  a - k > 0
        if not any(x is k for x in T.subterms(a)):
            m = T.sub(n, a)
            from .semtab import nonneg_usize_poly
            if nonneg_usize_poly(a) and nonneg_usize_poly(m):
                k2 = T.sym('k#split')
                left = mk_comp(a, k, elem[2])
                right = mk_comp(m, k2, T.subst(elem[3], {k: T.add(k2, a)}))
                return T.app('concat', left, right)
    h = binder_height(elem) + 1
    bv = T.sym('%%b%d' % h)
    body = T.subst(elem, {k: bv})
    return T.app('comp', n, T.app('lam%d' % h, body))


def seq_len(t):
    """length term of a collection-valued term (sees through comprehension wrappers)"""
    if T.is_app(t, 'eff') and t[2]:
        return seq_len(t[2][0])
    if T.is_app(t, 'comp'):
        return t[2][0]
    if T.is_app(t, 'array'):
        return T.num(len(t[2]))
    if T.is_app(t, 'repeat'):
        return t[2][1]
    if T.is_app(t, 'push'):
        return T.add(seq_len(t[2][0]), T.ONE)
    if T.is_app(t, 'upd'):
        return seq_len(t[2][0])
    return T.app('len', t)


def inst_comp(c, i):
    n, lam = c[2]
    h = int(lam[1][3:])
    return T.subst(lam[2][0], {T.sym('%%b%d' % h): i})
