"""Shared machinery for the per-property specification modules (rules/spec/Cxx.py)."""
import re
from . import terms as T
from .facts import Facts, strip_generics, type_head, callee_key, walk
from .vflow import VF, Ref, Clos, Tup, Seq, Place, keyrepr, mk_comp, index_term, field_term, upd_term, seq_len
from .semtab import SemTab, USED, CLASS


class Ob:
    """one obligation result"""

    def __init__(self, pid, oid, anchor, slot, verdict, expected='', found='', why='', sp=None, rule=None, note=''):
        self.pid, self.oid, self.anchor, self.slot = pid, oid, anchor, slot
        self.verdict, self.expected, self.found, self.why, self.sp = verdict, expected, found, why, sp
        self.rule = rule or oid
        self.note = note

    @property
    def key(self):
        return '%s/%s@%s#%s' % (self.pid, self.rule, self.anchor, self.slot)

    def to_json(self):
        return {'id': self.oid, 'key': self.key, 'anchor': self.anchor, 'slot': self.slot, 'verdict': self.verdict,
                'expected': clip(self.expected), 'found': clip(self.found), 'why': self.why, 'span': self.sp, 'note': self.note}


def clip(s, n=1500):
    s = str(s)
    return s if len(s) <= n else s[:n] + ' …[%d chars]' % len(s)


class Eval:
    """result of evaluating one anchor body"""

    def __init__(self, vf, body, ret):
        self.vf, self.body, self.ret = vf, body, ret
        self.path = strip_generics(body['path'])

    def t(self, v):
        return self.vf.to_term(v)

    @property
    def ret_term(self):
        return self.vf.to_term(self.ret) if self.ret is not None else T.UNIT

    def final(self, name):
        """final value of an external place given as 'self.field' / 'chain.rng'"""
        parts = name.split('.')
        return self.vf.read(Place(('ext', parts[0]), tuple(parts[1:])))

    def final_term(self, name):
        return self.vf.to_term(self.final(name))

    def written_ext(self):
        """external (caller-visible) places written, as keyrepr strings"""
        return sorted(set(keyrepr(k) for k in self.vf.store if k[0][0] == 'ext'))

    def loops_in(self, owner_pred=None, kind=None):
        out = []
        for ls in self.vf.loops:
            if kind and ls.kind != kind:
                continue
            if owner_pred and not owner_pred(ls.owner or ''):
                continue
            out.append(ls)
        return out

    def events(self, pred):
        return [e for e in self.vf.events if pred(e)]

    def local(self, ls, name):
        """carried key of a loop by variable/place name"""
        ks = [k for k in ls.lh if keyrepr(k) == name]
        return ks[0] if ks else None


class Ctx:
    def __init__(self, facts_path, pid):
        self.facts = Facts(facts_path)
        self.pid = pid
        self.obs = []
        self.cache = {}
        self.bodies_analysed = set()
        self.call_sites = 0
        self.extra = {}
        self._helpers = {}

    # ---- anchors
    def find_fn(self, name=None, trait=None, self_head=None, path=None, container=None):
        out = []
        for b in self.facts.bodies:
            if b['def_kind'] not in ('Fn', 'AssocFn'):
                continue
            if b.get('derived'):
                continue
            if name is not None and b.get('name') != name:
                continue
            if trait is not None and b.get('trait') != trait:
                continue
            if container is not None and b.get('container') != container:
                continue
            if self_head is not None and type_head(b.get('self_ty') or '') != self_head:
                continue
            if path is not None and strip_generics(b['path']) != path:
                continue
            out.append(b)
        return out

    def anchor(self, desc, **kw):
        bs = self.find_fn(**kw)
        if len(bs) != 1:
            return None
        return bs[0]

    def evaluate(self, body, no_inline=(), inline=True, args=None, tag='', opts=None):
        ck = (body['did'], tuple(sorted(no_inline)), inline, tag, tuple(sorted((opts or {}).items())))
        if ck in self.cache and args is None:
            return self.cache[ck]
        vf = VF(self.facts, SemTab(), inline=inline, no_inline=no_inline)
        for k_, v_ in (opts or {}).items():
            setattr(vf, k_, v_)
        ret = vf.eval_fn(body, args=args)
        ev = Eval(vf, body, ret)
        self.bodies_analysed.add(strip_generics(body['path']))
        self.call_sites += count_calls(body.get('thir'))
        if args is None:
            self.cache[ck] = ev
            self.totality(body, vf)
        return ev

    def totality(self, body, vf):
        """generic obligation on every analysed function: each of its own loops is reached on
        every path through the code around it -- a guard clause or an `if` in front of a loop makes everything the spec derives
        from the loop summary conditional.  Accepted: guards that only skip an empty loop (`if n > 0 { for _ in 0..n {..} }`)."""
        from .facts import canon_path
        if not hasattr(self, '_total_seen'):
            self._total_seen = set()
        anchor = canon_path(body['path'])
        by_uid = {ls.uid: ls for ls in vf.loops}
        n_cond = 0
        for ls in vf.loops:
            parent = by_uid.get(ls.ctx[-1]) if ls.ctx else None
            base = set(getattr(parent, 'pc', ())) if parent is not None else set()
            extra = [c for c in getattr(ls, 'pc', ()) if c not in base]
            if ls.owner != strip_generics(body['path']):
                continue            # a loop of an inlined helper is reached under its call site's condition: the caller's events carry it
            if parent is not None:
                # conditions inside the enclosing loop's body are that loop's business (its summary carries them); only the way in counts
                continue
            nn = ls.n if isinstance(ls.n, T.Tm) else None
            vac = set()
            if nn is not None:
                vac = {T.cmp('gt', nn, T.ZERO), T.lnot(T.cmp('eq', nn, T.ZERO)), T.cmp('ge', nn, T.ONE)}
            extra = [c for c in extra if c not in vac]
            if extra:
                n_cond += 1
                slot = 'loop:%s' % (show(nn)[:60] if nn is not None else ls.kind)
                if (anchor, slot) in self._total_seen:
                    continue
                self._total_seen.add((anchor, slot))
                self.unknown(self.pid + '.total', anchor, slot, sp=ls.sp, found='loop reached only when ' + ' & '.join(show(c)[:120] for c in extra),
                             expected='every loop of an analysed function is reached on every path (or skipped only when it would not iterate)',
                             why='the loop is skipped on some path: what the property says about its effect is not established for the inputs that take that path')
        if not n_cond and (anchor, 'loops') not in self._total_seen:
            self._total_seen.add((anchor, 'loops'))
            top = [ls for ls in vf.loops if not ls.ctx]
            self.ok(self.pid + '.total', anchor, 'loops', expected='every loop reached on every path', found='%d top-level loop(s), none behind a guard' % len(top),
                    why='loop summaries speak for every input only if no path goes around the loop')

    # ---- private helpers located by their role in the call graph (a rename is invisible)
    def local_callees(self, body):
        out = []

        def f(n):
            if n.get('k') in ('Call', 'Zst') and isinstance(n.get('fn'), dict):        # direct calls and function items passed as values (`.map(autocov)`)
                fn = n['fn']
                tgt = fn['did'] if fn.get('local') and fn.get('container') != 'trait' else fn.get('resolved_did') if fn.get('resolved_local') else None
                if tgt:
                    cb = self.facts.body(tgt)
                    if cb is not None and cb not in out:
                        out.append(cb)

        def visit(b):
            walk(b.get('thir'), f)
            for c in self.facts.children.get(b['did'], []):
                if c['def_kind'] == 'Closure':
                    visit(c)
        visit(body)
        return out

    def helper(self, role):
        """body of a private helper, by role; None if it cannot be located uniquely"""
        if role in self._helpers:
            return self._helpers[role]
        r = None
        f = self.find_fn
        def uniq(xs):
            return xs[0] if len(xs) == 1 else None
        if role == 'nuts.init_chain':
            run = uniq(f(name='run', self_head='nuts::NUTSChain', container='inherent'))
            if run is not None:
                cands = [c for c in self.local_callees(run) if type_head(c.get('self_ty') or '') == 'nuts::NUTSChain' and c.get('name') != 'step']
                r = uniq(cands)
                if r is None and len(cands) > 1:
                    # several private methods (an extracted row store, ...): the initialisation is the one that reaches the free
                    # step-size search function
                    r = uniq([c for c in cands if any(c2.get('container') is None for c2 in self.local_callees(c))])
        elif role == 'nuts.fre':
            ic = self.helper('nuts.init_chain')
            if ic is not None:
                r = uniq([c for c in self.local_callees(ic) if c.get('container') is None])
        elif role == 'nuts.chain_run_progress':
            rp = uniq(f(name='run_progress', self_head='nuts::NUTS', container='inherent'))
            if rp is not None:
                r = uniq([c for c in self.local_callees(rp) if type_head(c.get('self_ty') or '') == 'nuts::NUTSChain'])
        elif role == 'core._init':
            ws = uniq(f(path='core::init_with_seed'))
            if ws is not None:
                r = uniq(self.local_callees(ws))
        elif role == 'hmc.leapfrog':
            st = uniq(f(name='step', self_head='hmc::HMC', container='inherent'))
            if st is not None:
                r = uniq([c for c in self.local_callees(st) if type_head(c.get('self_ty') or '') == 'hmc::HMC'])
        self._helpers[role] = r
        return r

    def helper_key(self, role, default):
        b = self.helper(role)
        return strip_generics(b['path']) if b is not None else default

    def borrow(self, fn, keep):
        """run another property's rule function and keep only the obligations whose id satisfies `keep` (decided here too)"""
        saved = self.obs
        self.obs = []
        try:
            fn(self)
            got = [o for o in self.obs if keep(o.oid)]
        finally:
            self.obs = saved
        self.obs.extend(got)
        return got

    # ---- obligations
    def add(self, oid, anchor, slot, verdict, **kw):
        ob = Ob(self.pid, oid, anchor, slot, verdict, **kw)
        self.obs.append(ob)
        return ob

    def ok(self, oid, anchor, slot, expected='', found='', why='', sp=None, note=''):
        return self.add(oid, anchor, slot, 'discharged', expected=expected, found=found, why=why, sp=sp, note=note)

    def bad(self, oid, anchor, slot, expected='', found='', why='', sp=None, rule=None, note=''):
        return self.add(oid, anchor, slot, 'violated', expected=expected, found=found, why=why, sp=sp, rule=rule, note=note)

    def unknown(self, oid, anchor, slot, why='', sp=None, found='', expected=''):
        return self.add(oid, anchor, slot, 'unrecognised', why=why, sp=sp, found=found, expected=expected, rule='cannot-establish:' + oid)

    def eq(self, oid, anchor, slot, found, expected, why='', sp=None, rule=None, alts=()):
        """discharged iff found normal form equals expected (or one of the admissible alternatives)"""
        cands = [expected] + list(alts)
        fs = T.show(found) if isinstance(found, T.Tm) else str(found)
        es = ' | '.join(T.show(c) if isinstance(c, T.Tm) else str(c) for c in cands)
        if any(found is c for c in cands):
            return self.ok(oid, anchor, slot, expected=es, found=fs, why=why, sp=sp)
        return self.bad(oid, anchor, slot, expected=es, found=fs, why=why, sp=sp, rule=rule)

    def check(self, oid, anchor, slot, cond, expected='', found='', why='', sp=None, rule=None):
        if cond:
            return self.ok(oid, anchor, slot, expected=expected, found=found, why=why, sp=sp)
        return self.bad(oid, anchor, slot, expected=expected, found=found, why=why, sp=sp, rule=rule)


def count_calls(node):
    n = [0]

    def f(x):
        if x.get('k') == 'Call':
            n[0] += 1
    walk(node, f)
    return n[0]


# ---------------------------------------------------------------------- term utilities for specs

def S(name):
    return T.sym(name)


def name_terms(**kw):
    """register display abbreviations (diagnostics only)"""
    for nm, t in kw.items():
        if isinstance(t, T.Tm):
            T.NAMES[t] = nm


def fld(base, *names):
    for n in names:
        base = field_term(base, n)
    return base


def selff(*names):
    return fld(T.sym('self'), *names)


def N(x):
    return T.num(x)


def apps(t, op):
    """all distinct subterms that are applications of op (exact or prefix match with '*')"""
    if op.endswith('*'):
        p = op[:-1]
        return T.atoms(t, lambda x: x[0] == 'app' and x[1].startswith(p))
    return T.atoms(t, lambda x: x[0] == 'app' and x[1] == op)


def strip_post(t):
    """generator/receiver chain root: post0(f(g, ...)) -> root of g"""
    seen = 0
    while isinstance(t, T.Tm) and t[0] == 'app' and seen < 10000:
        seen += 1
        if t[1].startswith('post') and t[2]:
            inner = t[2][0]
            idx = int(t[1][4:]) if t[1][4:].isdigit() else 0
            if inner[0] == 'app' and len(inner[2]) > idx:
                t = inner[2][idx]
                continue
        break
    return t


def root_place(t):
    """textual root of a value chain: '.rng(self)' -> 'self.rng' ; lh/lx symbols -> their place"""
    t = strip_post(t)
    names = []
    while isinstance(t, T.Tm) and t[0] == 'app' and t[1].startswith('.') and len(t[2]) == 1:
        names.append(t[1][1:])
        t = strip_post(t[2][0])
    if isinstance(t, T.Tm) and t[0] == 'sym':
        base = t[1]
        m = re.match(r'l[hx]\d+:(.*)', base)
        if m:
            base = m.group(1)
        return '.'.join([base] + list(reversed(names)))
    return None


def contains(t, sub):
    return any(x is sub for x in T.subterms(t))


def show(t):
    return T.show(t) if isinstance(t, T.Tm) else repr(t)


# ---------------------------------------------------------------------- shape-plumbing erasure (C15 tensor forms)

def _flatten_lit(t):
    if T.is_app(t, 'array'):
        out = []
        for x in t[2]:
            out.extend(_flatten_lit(x))
        return out
    return [t]


def _regroup(flat, shape):
    if len(shape) == 1:
        return T.app('array', *flat)
    step = len(flat) // shape[0]
    return T.app('array', *[_regroup(flat[i * step:(i + 1) * step], shape[1:]) for i in range(shape[0])])


def erase_shapes(t):
    """Quotient by tensor plumbing that does not change values: reshape of literals is evaluated
    (row-major), expand/squeeze/unsqueeze/flatten/ones-broadcast are dropped, 1xk literals are rows."""
    memo = {}

    def go(x):
        if x in memo:
            return memo[x]
        k = x[0]
        if k == 'app':
            args = tuple(go(a) for a in x[2])
            op = x[1]
            r = None
            if op == 'reshape':
                a, shp = args
                dims = shp[2] if T.is_app(shp, 'array') else ()
                flat = _flatten_lit(a) if T.is_app(a, 'array') else None
                if flat and dims and all(T.is_num(d) and d[2] == 1 for d in dims):
                    shape = [d[1] for d in dims]
                    tot = 1
                    for d_ in shape:
                        tot *= d_
                    if tot == len(flat):
                        while len(shape) > 1 and shape[0] == 1:
                            shape = shape[1:]
                        r = _regroup(flat, shape)
                if r is None:
                    r = a
            elif op in ('expand', 'squeeze', 'unsqueeze', 'unsqueeze_dim', 'flatten_t'):
                r = args[0]
            elif op in ('ones',):
                r = T.ONE
            elif op in ('zeros_t', 'zeros_like'):
                r = T.ZERO
            elif op == 'array' and len(args) == 1 and T.is_app(args[0], 'array'):
                r = args[0]
            else:
                r = T.app(op, *args)
        elif k in ('num', 'sym'):
            r = x
        else:
            r = T.subst(x, {a: go(a) for a in _direct_atoms(x)})
        memo[x] = r
        return r

    return go(t)


def _direct_atoms(x):
    """immediate non-structural children of poly/cmp/ite/and/or/not/tuple nodes"""
    k = x[0]
    out = []
    if k == 'poly':
        for m, _c in x[1]:
            for a, _e in m:
                out.append(a)
    elif k == 'cmp':
        out.extend(_direct_atoms(x[2]) if x[2][0] == 'poly' else [x[2]])
    elif k == 'not':
        out.append(x[1])
    elif k in ('and', 'or', 'tuple'):
        out.extend(x[1])
    elif k == 'ite':
        out.extend(x.parts[1:])
    return out


# ---------------------------------------------------------------------- ndarray access canonicalisation

STAR = T.sym('*')


def AX(k):
    return T.app('adt:ndarray::Axis', T.app('f:0', N(k)))


def _spec(s):
    if T.is_app(s, 'adt:std::ops::RangeFull'):
        return STAR
    if T.is_app(s, 'adt:std::ops::RangeTo'):
        return T.app('to', s[2][0][2][0])
    if T.is_app(s, 'adt:std::ops::RangeFrom'):
        return T.app('from', s[2][0][2][0])
    return s


def _is_free(s):
    return s is STAR or T.is_app(s, ('to', 'from', 'range'))


def sel(base, *specs):
    return _sel_compose(base, list(specs))


def _sel_compose(x, specs):
    if T.is_app(x, 'sel'):
        base, old = x[2][0], list(x[2][1:])
        free = [i for i, s in enumerate(old) if _is_free(s)]
        if len(free) == len(specs) and all(old[i] is STAR or specs[j] is STAR for j, i in enumerate(free)):
            for j, i in enumerate(free):
                if old[i] is STAR:
                    old[i] = specs[j]
            return T.app('sel', base, *old)
    return T.app('sel', x, *specs)


def canon_nd(t, ranks=None):
    """canonical element/sub-array selection terms: sel(base, spec_axis0, spec_axis1, ...)"""
    ranks = ranks or {}
    memo = {}

    def rank_of(x):
        if x in ranks:
            return ranks[x]
        if T.is_app(x, 'sel'):
            return sum(1 for s in x[2][1:] if _is_free(s))
        return None

    def free_axis_size(x, j):
        """size of the j-th free axis of a selection of a base array"""
        if T.is_app(x, 'sel') and not T.is_app(x[2][0], 'sel'):
            free = [i for i, s_ in enumerate(x[2][1:]) if _is_free(s_)]
            if j < len(free) and x[2][1:][free[j]] is STAR:
                return index_term(T.app('shape', x[2][0]), N(free[j]))
        if x in ranks and j < ranks[x]:
            return index_term(T.app('shape', x), N(j))
        return None

    def go(x):
        if x in memo:
            return memo[x]
        k = x[0]
        if k == 'app':
            args = tuple(go(a) for a in x[2])
            op = x[1]
            r = None
            if op == 'nd_slice' and len(args) == 2 and T.is_app(args[1], 'sliceinfo') and T.is_app(args[1][2][0], 'array'):
                r = _sel_compose(args[0], [_spec(s) for s in args[1][2][0][2]])
            elif op in ('ndarray::ArrayBase::slice_axis', 'slice_axis') and len(args) == 3 and T.is_app(args[1], 'adt:ndarray::Axis'):
                # x.slice_axis(Axis(k), Slice::from(range)): a range on axis k, everything on the other axes
                rk = rank_of(args[0])
                ax = args[1][2][0][2][0]
                sp_ = args[2]
                if T.is_app(sp_, ('adt:ndarray::Slice', 'ndarray::Slice::from', 'std::convert::From::from', 'slice_from')) and sp_[2]:
                    sp_ = sp_[2][0]
                if rk is not None and T.is_num(ax) and ax[1] < rk:
                    specs = [STAR] * rk
                    specs[ax[1]] = _spec(sp_)
                    if _is_free(specs[ax[1]]):
                        r = _sel_compose(args[0], specs)
            elif op == 'column' and len(args) == 2:
                r = _sel_compose(args[0], [STAR, args[1]])
            elif op == 'row' and len(args) == 2:
                r = _sel_compose(args[0], [args[1], STAR])
            elif op == 'index_axis' and len(args) == 3 and T.is_app(args[1], 'adt:ndarray::Axis'):
                rk = rank_of(args[0])
                ax = args[1][2][0][2][0]
                if rk is not None and T.is_num(ax) and ax[1] < rk:
                    specs = [STAR] * rk
                    specs[ax[1]] = args[2]
                    r = _sel_compose(args[0], specs)
            elif op == 'index' and len(args) == 2 and T.is_app(args[0], 'shape') and len(args[0][2]) == 1 and T.is_app(args[0][2][0], 'sel') and T.is_num(args[1]):
                r = free_axis_size(args[0][2][0], int(T.numval(args[1])))        # size of the j-th remaining axis of a selection
            elif op == 'index' and len(args) == 2:
                b, i = args
                if i[0] == 'tuple' and rank_of(b) == len(i[1]):
                    r = _sel_compose(b, list(i[1]))
                elif rank_of(b) == 1 and i[0] != 'tuple':
                    r = _sel_compose(b, [i])
            elif op == 'len' and len(args) == 1 and T.is_app(args[0], 'sel'):
                base, specs = args[0][2][0], args[0][2][1:]
                free = [i for i, s in enumerate(specs) if _is_free(s)]
                if len(free) == 1 and specs[free[0]] is STAR and not T.is_app(base, 'sel'):
                    r = index_term(T.app('shape', base), N(free[0]))
            elif op == 'outer_iter_at' and len(args) == 2:
                rk = rank_of(args[0])
                if rk:
                    r = _sel_compose(args[0], [args[1]] + [STAR] * (rk - 1))      # i-th sub-array along axis 0
            elif op == 'n_outer_iter' and len(args) == 1:
                r = free_axis_size(args[0], 0)
            elif op == 'len' and len(args) == 1 and T.is_app(args[0], ('mean_axis', 'sum_axis')) and len(args[0][2]) == 2 and T.is_app(args[0][2][1], 'adt:ndarray::Axis'):
                inner, ax = args[0][2][0], args[0][2][1][2][0][2][0]
                if rank_of(inner) == 2 and T.is_num(ax) and ax[1] in (0, 1):
                    r = free_axis_size(inner, 1 - ax[1])       # reducing one axis of a matrix leaves the other
            elif op == 'min' and len(args) == 2 and args[0] is args[1]:
                r = args[0]
            if r is None:
                r = T.app(op, *args)
        elif k in ('num', 'sym'):
            r = x
        else:
            r = T.subst(x, {a: go(a) for a in _direct_atoms(x)})
        memo[x] = r
        return r

    return go(t)


def assume_ok(t):
    """the success path: every is:Err / is:None test on the path is false, is:Ok / is:Some true"""
    m = {}
    for x in T.subterms(t):
        if x[0] == 'app' and x[1] in ('is:Err', 'is:None'):
            m[x] = T.FALSE
        elif x[0] == 'app' and x[1] in ('is:Ok', 'is:Some'):
            m[x] = T.TRUE
    return T.subst(t, m) if m else t


# ---------------------------------------------------------------------- precision-narrowing conversions (THIR scan)

NARROW_CALLS = ('burn::tensor::ElementConversion::elem', 'burn::tensor::cast::ToElement::to_f32', 'num_traits::ToPrimitive::to_f32',
                'burn::tensor::TensorData::convert', 'burn::tensor::cast::ToElement::to_f16', 'burn::tensor::cast::ToElement::to_bf16',
                'burn::tensor::Tensor::cast')
FLOAT_RANK = {'f16': 1, 'bf16': 1, 'f32': 2, 'f64': 3}


def narrowing_sites(ctx, bodies):
    """Conversions that fix a narrower float type on possibly wider data: elem::<f32>() / to_f32() / convert::<f32>() on values of
    generic element type (or f64), and `as f32` casts of such values.  Returns [(fn path, description, span)]."""
    out = []

    def visit(root, b):
        def f(n):
            k = n.get('k')
            if k == 'Call' and n.get('fn') and callee_key(n['fn']) in NARROW_CALLS:
                key = callee_key(n['fn'])
                args = n['fn'].get('args', [])
                tgt = None
                if key.endswith('::elem') and len(args) > 1:
                    tgt = args[1]
                elif key.endswith('::convert') and args:
                    tgt = args[0]
                elif key.endswith('to_f32'):
                    tgt = 'f32'
                elif key.endswith('to_f16') or key.endswith('to_bf16'):
                    tgt = 'f16'
                src = (n.get('args') or [{}])[0].get('ty', '?').lstrip('&')
                if tgt in FLOAT_RANK and FLOAT_RANK.get(src, 99) > FLOAT_RANK[tgt]:
                    out.append((strip_generics(root['path']), '%s to %s on a value of type %s' % (key.split('::')[-1], tgt, src), n.get('sp')))
            if k == 'Cast' and n.get('ty') in FLOAT_RANK:
                src = n['e'].get('ty', '?')
                if (src in FLOAT_RANK and FLOAT_RANK[src] > FLOAT_RANK[n['ty']]) or (src not in FLOAT_RANK and not src.startswith(('u', 'i')) and src not in ('bool',)):
                    out.append((strip_generics(root['path']), 'cast `as %s` of a value of type %s' % (n['ty'], src), n.get('sp')))
        walk(b.get('thir'), f)
        for c in ctx.facts.children.get(b['did'], []):
            if c['def_kind'] == 'Closure':
                visit(root, c)
    for b in bodies:
        if b is not None:
            visit(b, b)
    return out


def conjuncts(c):
    """the conjuncts of a condition (a single condition is its own only conjunct)"""
    return list(c[1]) if isinstance(c, T.Tm) and c[0] == 'and' else [c]


def guarded_by(t, guard):
    """t = ite(guard && rest, X, Y) (or the nested spelling ite(guard, ite(rest, X, Y), Y)): returns (rest, X, Y), rest = TRUE when
    the guard is the whole condition; None when t is not guarded that way.  ite normal forms flatten nested guards into conjunctions."""
    if not (isinstance(t, T.Tm) and t[0] == 'ite'):
        return None
    cs = conjuncts(t[1])
    if any(x is guard for x in cs):
        rest = [x for x in cs if x is not guard]
        return (T.land(*rest) if rest else T.TRUE), t[2], t[3]
    return None


def settle_monus(t, bounds):
    """decide the saturating differences monus(a, b) left in a term once the spec knows more than the evaluator did:
    `bounds` maps an iteration symbol to its trip count (it < n).  monus(a, b) -> a - b when b <= a follows, 0 when a <= b follows;
    min(a - b, a) -> a - b.  Undecided ones stay."""
    from .semtab import nonneg_usize_poly

    def le(a, b):
        d = T.sub(b, a)
        if nonneg_usize_poly(d):
            return True
        bs = [(v, n) for v, n in bounds.items() if any(x is v for x in T.subterms(d))]
        for mask in range(1, 1 << len(bs)):
            sub = {v: T.sub(T.sub(n, T.ONE), T.sym('slack:' + T.show(v))) for j, (v, n) in enumerate(bs) if mask >> j & 1}
            if nonneg_usize_poly(T.subst(d, sub)):
                return True
        return False
    cur = t
    for _ in range(10):
        m = {}
        for x in T.subterms(cur):
            if T.is_app(x, 'monus'):
                a, b = x[2]
                if le(b, a):
                    m[x] = T.sub(a, b)
                elif le(a, b):
                    m[x] = T.ZERO
            elif T.is_app(x, 'min') and len(x[2]) == 2:
                a, b = x[2]
                if le(a, b):
                    m[x] = a
                elif le(b, a):
                    m[x] = b
        if not m:
            return cur
        cur = T.subst(cur, m)
    return cur


def carried_keys(ls):
    """carried places of a loop that actually change: unit accumulators of for_each / fold-to-() and other identity-carried
    places (next is the loop-head value itself) and closed induction counters (a hand-advanced iterator's position) are
    bookkeeping of the iterator form, not state"""
    ind = getattr(ls, 'induction', ())
    return [k for k in ls.lh if not (isinstance(ls.next.get(k), T.Tm) and ls.next[k] is ls.lh[k]) and k not in ind]


def strip_eff(t):
    """value of a term with the effect markers of forced iterator pipelines removed: eff(x, loopN) -> x"""
    cur = t
    for _ in range(20):
        m = {x: x[2][0] for x in T.subterms(cur) if T.is_app(x, 'eff') and x[2]}
        if not m:
            return cur
        cur = T.subst(cur, m)
    return cur


def collected(ls):
    """sequences a loop builds, one element per iteration, whichever way it is written:
    [(sequence term after the loop, element term of one iteration)] -- `for` + push into an empty Vec, or map(..).collect()"""
    out = []
    if ls.kind == 'forced' and getattr(ls, 'result_term', None) is not None:
        out.append((T.app('eff', mk_comp(ls.n, ls.var, ls.result_term), T.sym('loop%d' % ls.uid)), ls.result_term))
    for k in ls.lh:
        nx = ls.next.get(k)
        if T.is_app(nx, 'push') and nx[2][0] is ls.lh[k] and ls.init.get(k) is T.app('array'):
            out.append((ls.lx[k], nx[2][1]))
    return out


def reachable_bodies(ctx, roots):
    """hand-written crate-local bodies reachable from `roots` through resolved calls (closures included with their parents)"""
    seen, order, stack = set(), [], [b for b in roots if b is not None]
    while stack:
        b = stack.pop()
        if b['did'] in seen:
            continue
        seen.add(b['did'])
        order.append(b)
        for c in ctx.local_callees(b):
            if c['did'] not in seen and ctx.facts.is_hand_written(c):
                stack.append(c)
    return order


def numcast_f64_sites(ctx, bodies):
    """NumCast::from(x) with x a NON-constant f64 (or f32 -> narrower is impossible): the target is the generic element type,
    which may be narrower than f64.  Literal / named-constant arguments are roundings of constants and are not listed."""
    out = []

    def visit(root, b):
        def f(n):
            if n.get('k') == 'Call' and n.get('fn') and callee_key(n['fn']) == 'num_traits::NumCast::from':
                a = (n.get('args') or [{}])[0]
                inner = a
                while isinstance(inner, dict) and inner.get('k') in ('Scope', 'Coerce', 'Borrow', 'Deref') and inner.get('e'):
                    inner = inner['e']
                if a.get('ty', '').lstrip('&') == 'f64' and inner.get('k') not in ('Lit', 'Const', 'NamedConst'):
                    out.append((strip_generics(root['path']), 'NumCast::from(non-constant f64) to %s' % n.get('ty', '?'), n.get('sp')))
        walk(b.get('thir'), f)
        for c in ctx.facts.children.get(b['did'], []):
            if c['def_kind'] == 'Closure':
                visit(root, c)
    for b in bodies:
        if b is not None:
            visit(b, b)
    return out


def narrowing_budget(ctx, pfx, anchor, roots, allowed, why, sp=None):
    """Conversion hygiene over everything reachable from `roots`: the number of float-narrowing conversions (to_f32 / elem / convert /
    `as f32` on generic or wider values) and of NumCast::from(non-constant f64) is at most what was confirmed by reading on the
    reference tree (`allowed` = {'narrow': n, 'numcast': m}); each of those is a diagnostics-path conversion to f32 or an
    f64 -> element-type read-back that the specification of the property already accounts for."""
    bodies = reachable_bodies(ctx, roots)
    ns = narrowing_sites(ctx, bodies)
    nc = numcast_f64_sites(ctx, bodies)
    ok = len(ns) <= allowed.get('narrow', 0) and len(nc) <= allowed.get('numcast', 0)
    ctx.check(pfx + '.no_narrowing', anchor, 'precision', ok,
              expected='at most %d narrowing conversion(s) and %d f64->element read-back(s) on this path (those confirmed on the reference tree)' % (allowed.get('narrow', 0), allowed.get('numcast', 0)),
              found='; '.join('%s: %s at %s' % x for x in ns + nc) or 'none', sp=sp, why=why)
    return ns, nc


# ---------------------------------------------------------------------- autodiff wiring

GRAPH_OPTS = {'graph_cuts_visible': True}


def erase_graph(t):
    """drop leaf / detach / inner / from_inner wrappers (value-preserving)"""
    m = {}
    for x in T.subterms(t):
        if x[0] == 'app' and (x[1].startswith('leaf#') or x[1] in ('detach', 'inner', 'from_inner', 'set_require_grad', 'no_grad')) and len(x[2]) >= 1:
            m[x] = x[2][0]
    cur = t
    for _ in range(50):
        if not m:
            break
        nxt = T.subst(cur, m)
        if nxt is cur:
            break
        cur = nxt
        m = {}
        for x in T.subterms(cur):
            if x[0] == 'app' and (x[1].startswith('leaf#') or x[1] in ('detach', 'inner', 'from_inner', 'set_require_grad', 'no_grad')) and len(x[2]) >= 1:
                m[x] = x[2][0]
    return cur


def grad_wiring_problems(terms):
    """every grad(f, w): w is a leaf created by require_grad, f was evaluated on that very leaf, and no graph cut lies
    between the leaf and f's value"""
    probs = []
    seen = set()
    for t in terms:
        for g in T.atoms(t, lambda x: T.is_app(x, 'grad') or T.is_app(x, 'grad_in')):
            if g in seen:
                continue
            seen.add(g)
            if g[1] == 'grad_in':
                probs.append('gradient taken from something that is not the backward pass of a value: %s' % T.show(g)[:120])
                continue
            f, w = g[2]
            w0 = w
            while T.is_app(w0) and w0[1] in ('detach',):
                w0 = w0[2][0]
            if not (T.is_app(w) and w[1].startswith('leaf#')):
                probs.append('gradient requested for a tensor that is not a require_grad leaf: %s' % T.show(w)[:120])
                continue
            if not contains(f, w):
                probs.append('the differentiated value was not computed from the leaf whose gradient is read (%s)' % w[1])
                continue
            # a cut between the leaf and the value: the leaf occurs in f only underneath detach/inner
            cut_free = T.subst(f, {x: T.sym('cut') for x in T.subterms(f) if x[0] == 'app' and x[1] in ('detach', 'inner', 'no_grad') and contains(x, w)})
            if not contains(cut_free, w):
                probs.append('the leaf reaches the differentiated value only through detach/inner (gradient is cut)')
            elif any(x[0] == 'app' and x[1] in ('detach', 'inner', 'no_grad') and contains(x, w) for x in T.subterms(f)):
                probs.append('a factor of the differentiated value is detached from the leaf (partial gradient)')
    return probs
