"""TYPESTATE: abstract dtype of burn TensorData values and the fate of checked accessors.

burn-tensor data.rs: `as_slice::<E>`, `to_vec::<E>`, `into_vec::<E>` return Err(TypeMismatch) unless
E::dtype() == self.dtype ; `iter::<E>` converts ; `convert::<E>` changes the dtype to E.
A value obtained from Tensor<B,_>::to_data/into_data has dtype Elem(B) (the back end's element type).
An accessor whose E is not syntactically the state's type is MayErr; MayErr reaching unwrap/expect is a
violation (panics for back ends whose element type differs), propagating it with `?` is allowed.
"""
from .facts import callee_key, strip_generics

ACCESSORS = ('burn::tensor::TensorData::as_slice', 'burn::tensor::TensorData::to_vec', 'burn::tensor::TensorData::into_vec',
             'burn::tensor::TensorData::as_mut_slice')
PEEL = ('Borrow', 'Deref', 'Coerce', 'RawBorrow', 'ByUse')
TRANSPARENT_CALLS = ('std::clone::Clone::clone', 'std::ops::Deref::deref', 'std::ops::DerefMut::deref_mut', 'std::convert::AsRef::as_ref', 'std::borrow::Borrow::borrow')


def walk_parents(n, fn, parents=None):
    parents = [] if parents is None else parents
    if isinstance(n, dict):
        fn(n, parents)
        parents.append(n)
        for v in n.values():
            walk_parents(v, fn, parents)
        parents.pop()
    elif isinstance(n, list):
        for v in n:
            walk_parents(v, fn, parents)


def collect_defs(body):
    """var id -> list of defining expressions (let initialisers and assignments) within one body"""
    defs = {}

    def f(n, ps):
        if n.get('k') == 'Let' and 'pat' in n and n.get('init') is not None:
            pat = n['pat']
            if pat.get('k') == 'Binding':
                defs.setdefault(pat['var'], []).append(n['init'])
        if n.get('k') == 'Assign' and n['l'].get('k') == 'Var':
            defs.setdefault(n['l']['var'], []).append(n['r'])
    walk_parents(body.get('thir'), f)
    return defs


def peel(e):
    while isinstance(e, dict):
        if e.get('k') in PEEL:
            e = e['e']
        elif e.get('k') == 'Call' and e.get('fn') and callee_key(e['fn']) in TRANSPARENT_CALLS and e.get('args'):
            e = e['args'][0]
        elif e.get('k') == 'Block' and not e.get('stmts') and e.get('expr') is not None:
            e = e['expr']
        else:
            break
    return e


def dtype_of(e, defs, depth=0):
    """abstract dtype of a TensorData-valued expression: a type string, 'Elem(B)' or None (unknown)"""
    e = peel(e)
    if not isinstance(e, dict) or depth > 20:
        return None
    if e.get('k') == 'Call' and e.get('fn'):
        key = callee_key(e['fn'])
        args = e['fn'].get('args', [])
        if key in ('burn::tensor::Tensor::to_data', 'burn::tensor::Tensor::into_data'):
            return 'Elem(%s)' % (args[0] if args else '?')
        if key == 'burn::tensor::TensorData::convert':
            return args[0] if args else None
        if key == 'burn::tensor::TensorData::new':
            return args[0] if args else None
        if key in ('burn::tensor::TensorData::from', 'std::convert::From::from', 'std::convert::Into::into'):
            return None
    if e.get('k') in ('Var', 'Upvar'):
        ds = defs.get(e['var'], [])
        if not ds:
            return None
        ts = set(dtype_of(d, defs, depth + 1) for d in ds)
        if len(ts) == 1:
            return ts.pop()
        return 'Join(%s)' % ','.join(sorted(str(t) for t in ts))
    return None


def consumer_of(parents):
    """what consumes the Result produced by the accessor call: unwrap|expect|try|match|other"""
    saw_map_err = False
    for p in reversed(parents):
        k = p.get('k')
        if k in PEEL or k in ('Block',) or k is None:
            continue
        if k == 'Call' and p.get('fn'):
            key = callee_key(p['fn'])
            if key in ('std::result::Result::unwrap', 'std::result::Result::expect', 'std::result::Result::unwrap_unchecked', 'std::option::Option::unwrap', 'std::option::Option::expect'):
                return 'unwrap'
            if key in ('std::result::Result::map_err', 'std::result::Result::ok', 'std::result::Result::or_else'):
                saw_map_err = True
                continue
            if key == 'std::ops::Try::branch':
                return 'try'
            if key in ('std::result::Result::unwrap_or', 'std::result::Result::unwrap_or_else', 'std::result::Result::unwrap_or_default', 'std::result::Result::is_ok', 'std::result::Result::is_err'):
                return 'handled'
            return 'other:' + str(key)
        if k in ('Match', 'If', 'Let'):
            return 'match'
        if k == 'Let' or k == 'Expr':
            continue
        return 'other:' + str(k)
    return 'other'


def root_var(e):
    e = peel(e)
    while isinstance(e, dict) and e.get('k') == 'Call' and e.get('args'):
        e = peel(e['args'][0])
    if isinstance(e, dict) and e.get('k') in ('Var', 'Upvar'):
        return e.get('name')
    return 'expr'


def accessor_sites(facts):
    """all checked TensorData accessor call sites in hand-written bodies"""
    out = []
    for b in facts.bodies:
        if not facts.is_hand_written(b):
            continue
        root = facts.closure_root(b) or b
        defs = collect_defs(root)
        if b is not root:
            defs.update(collect_defs(b))

        def f(n, ps, b=b, defs=defs, root=root):
            if n.get('k') == 'Call' and n.get('fn') and callee_key(n['fn']) in ACCESSORS:
                e_ty = (n['fn'].get('args') or ['?'])[0]
                recv = n['args'][0] if n.get('args') else None
                dt = dtype_of(recv, defs)
                out.append({'fn': strip_generics(root['path']), 'accessor': n['fn'].get('name'), 'E': e_ty, 'dtype': dt,
                            'state': 'Ok' if dt is not None and dt == e_ty else 'MayErr', 'consumer': consumer_of(ps),
                            'sp': n.get('sp'), 'slot': root_var(recv)})
        walk_parents(b.get('thir'), f)
    return out
