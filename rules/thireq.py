"""Structural (alpha-)equivalence of THIR bodies: sibling copies of one piece of code must agree."""
import json
import re

DROP = {'id', 'sp', 'fn_sp', 'exp', 'did', 'resolved_did', 'label', 'closure'}


def normalise(node):
    vars_, clos = {}, {}

    def go(n):
        if isinstance(n, dict):
            out = {}
            for k, v in n.items():
                if k in DROP:
                    continue
                if k == 'var':
                    out[k] = vars_.setdefault(v, 'v%d' % len(vars_))
                elif k == 'def' and n.get('k') == 'Closure':
                    out[k] = clos.setdefault(v, 'c%d' % len(clos))
                else:
                    out[k] = go(v)
            return out
        if isinstance(n, list):
            return [go(x) for x in n]
        if isinstance(n, str) and '{closure@' in n:
            return re.sub(r'\{closure@[^}]*\}', '{closure}', n)
        return n
    return go(node)


def canon(node):
    return json.dumps(normalise(node), sort_keys=True)


def first_difference(a, b, path=''):
    """smallest differing sub-tree of two normalised trees: (path, a, b)"""
    if type(a) != type(b):
        return path, a, b
    if isinstance(a, dict):
        for k in sorted(set(a) | set(b)):
            if k not in a or k not in b:
                return path + '/' + k, a.get(k), b.get(k)
            d = first_difference(a[k], b[k], path + '/' + k)
            if d:
                return d
        return None
    if isinstance(a, list):
        if len(a) != len(b):
            return path + '[len]', len(a), len(b)
        for i, (x, y) in enumerate(zip(a, b)):
            d = first_difference(x, y, '%s[%d]' % (path, i))
            if d:
                return d
        return None
    return None if a == b else (path, a, b)


def inline_closures(node, facts):
    """replace Closure nodes by their bodies so that nested closures take part in the comparison"""
    if isinstance(node, dict):
        out = {k: inline_closures(v, facts) for k, v in node.items()}
        if node.get('k') == 'Closure':
            b = facts.body(node.get('def'))
            if b is not None:
                out['body'] = inline_closures(b.get('thir'), facts)
                out['params'] = b.get('params')
        return out
    if isinstance(node, list):
        return [inline_closures(x, facts) for x in node]
    return node
