"""Evaluator self-test on the fixture crate fixtures/evalforms: `eq_X_a` / `eq_X_b` must have the same canonical summary
(return term, loop summaries, events with their path conditions), `ne_X_a` / `ne_X_b` must differ.  Run by the thorough tier and by
bin/selftest_all.py; a failure is a CHECKER failure, never a property verdict.
usage: python3 -m rules.fixture_selftest <facts.json of the fixture crate>"""
import re
import sys
from . import terms as T
from .speclib import Ctx, show, keyrepr


def summary(ctx, b):
    ev = ctx.evaluate(b)
    ids = {}

    def canon(txt):
        def rep(m):
            key = (m.group(1), m.group(2))
            if key not in ids:
                ids[key] = len([k for k in ids if k[0] == m.group(1)])
            return '%s%d' % (m.group(1), ids[key])
        txt = re.sub(r'\b(lh|lx|it|loop|acc|channel#|lhc)(\d+)', rep, txt)
        return re.sub(r'\beff\((.*), loop\d+\)', r'\1', txt)
    ret = canon(show(ev.ret_term))
    loops = []
    for ls in ev.vf.loops:
        nxt = sorted((re.sub(r"^\('acc', '[^']*'\)$", 'ACC', canon(keyrepr(k))), canon(show(ls.next[k])) if isinstance(ls.next.get(k), T.Tm) else '?') for k in ls.lh
                     if not (isinstance(ls.next.get(k), T.Tm) and ls.next[k] is ls.lh[k]) and k not in getattr(ls, 'induction', ())
                     # (a collection built by push from empty is the loop's result, compared through the value it flows into)
                     and not (T.is_app(ls.next.get(k), 'push') and ls.next[k][2][0] is ls.lh[k] and ls.init.get(k) is T.app('array')))
        loops.append((len(ls.ctx), canon(show(ls.n)) if ls.n is not None else None, tuple(canon(show(e[2])) for e in ls.exits), tuple(nxt)))
    events = [(e.op, e.key, tuple(canon(show(c)) for c in e.pc)) for e in ev.vf.events if e.op in ('send', 'call', 'draw', 'channel') or (e.key or '').endswith('::send')]
    ext = sorted((k, canon(show(ev.final_term(k)))) for k in ev.written_ext())
    return ret, ext, events, loops


def run(facts_path):
    ctx = Ctx(facts_path, 'FIX')
    fns = {b['path']: b for b in ctx.facts.bodies if b['def_kind'] == 'Fn' and ctx.facts.is_hand_written(b)}
    fails, n_eq, n_ne = [], 0, 0
    for name in sorted(fns):
        m = re.match(r'(eq|ne)_(\w+)_a$', name)
        if not m:
            continue
        other = '%s_%s_b' % (m.group(1), m.group(2))
        if other not in fns:
            continue                      # single-sided fixture (kept for reading)
        sa, sb = summary(ctx, fns[name]), summary(ctx, fns[other])
        if m.group(1) == 'eq':
            n_eq += 1
            # loops: compare only what the functions return / write (closed forms make loop shapes irrelevant) unless the result is a loop symbol
            same = sa[0] == sb[0] and sa[1] == sb[1] and sa[2] == sb[2] and (('lx' not in sa[0] and not any('lx' in v for _, v in sa[1])) or sa[3] == sb[3])
            if not same:
                fails.append('%s / %s should have the same normal form:\n   a: %s\n   b: %s' % (name, other, sa, sb))
        else:
            n_ne += 1
            if sa == sb:
                fails.append('%s / %s must be told apart but have the same summary: %s' % (name, other, sa))
    return n_eq, n_ne, fails


if __name__ == '__main__':
    n_eq, n_ne, fails = run(sys.argv[1])
    for f in fails:
        print('FIXTURE-FAIL', f)
    print('fixture selftest: %d equal pairs, %d distinct pairs, %d failures' % (n_eq, n_ne, len(fails)))
    sys.exit(2 if fails or n_eq < 14 or n_ne < 11 else 0)
