"""Thorough tier: quick verdict + configuration matrix + self-test matrix (mutants / benign variants / seeded changes)
+ THIR/MIR call-site cross-validation.  Self-test outcomes never change the property verdict; a self-test failure
is a failure of the checker (exit 2)."""
import glob
import json
import os
import re
import shutil
import subprocess
import sys
import tempfile
import time
from concurrent.futures import ThreadPoolExecutor

from . import runner
from .facts import Facts, walk, strip_generics

V = '/verif'
INTRINSIC_OK = ('alloc::intrinsics::write_box_via_move',)
CONFIGS = [('none', 'none', 'dev'), ('csv', 'csv', 'dev'), ('arrow', 'arrow', 'dev'), ('parquet', 'parquet', 'dev'), ('all-release', 'csv,arrow,parquet', 'release')]
IO_FEATURE_OF = {'C17.csv': 'csv', 'C17.csv_tensor': 'csv', 'C17.arrow': 'arrow', 'C17.parquet': 'parquet', 'C17.parquet_tensor': 'parquet'}


def extract(out, repo='/repo', features='csv,arrow,parquet', profile='dev', target=None):
    env = dict(os.environ)
    env['MCMC_PROFILE'] = profile
    if target:
        env['MCMC_TARGET_DIR'] = target
    r = subprocess.run([os.path.join(V, 'bin', 'extract.sh'), out, repo, features], env=env, capture_output=True, text=True)
    return r.returncode == 0, r.stderr[-2000:]


def crossval(facts_path):
    f = Facts(facts_path)
    nb = nsites = 0
    bad = []
    for b in f.bodies:
        if not b.get('mir') or not b.get('thir'):
            continue
        nb += 1
        th = {}

        def g(n):
            if n.get('k') == 'Call' and n.get('fn'):
                th[n['fn']['did']] = n['fn']['path']
        walk(b['thir'], g)
        mi = set()
        for blk in b['mir']['blocks']:
            t = blk['term']
            if t['k'] == 'Call' and t.get('fn'):
                mi.add(t['fn']['did'])
        nsites += len(th)
        for d, p in th.items():
            if d not in mi and strip_generics(p) not in INTRINSIC_OK:
                bad.append('%s: THIR callee %s has no MIR call' % (strip_generics(b['path']), p))
    return nb, nsites, bad


def keys_of(ctx_viol):
    return sorted(o.key for o in ctx_viol)


def spec_on(pid, facts_path, tier='thorough'):
    ctx, viol, known, lines, ev = runner.run_property(pid, facts_path, tier, time.time(), quiet=True)
    return ctx, viol, known, lines, ev


def applicable(pid, key, features):
    """C17 obligations of modules that are compiled out in this feature set are not applicable"""
    if pid != 'C17' or features == 'csv,arrow,parquet':
        return True
    have = set(features.split(',')) if features != 'none' else set()
    # (the `parquet` feature pulls in the arrow CRATE, not the crate's own `arrow` feature: `mod io::arrow` is compiled only with
    # `--features arrow`, so its obligations are not applicable in the parquet-only configuration)
    m = re.match(r'C17/(?:cannot-establish:)?(C17\.[a-z_]+)', key)
    anchor_feat = None
    for pre, feat in IO_FEATURE_OF.items():
        if ('@io::%s::' % pre.split('.')[1].split('_')[0]) in key or key.startswith('C17/' + pre + '.') or key.startswith('C17/cannot-establish:' + pre):
            anchor_feat = feat
    for mod, feat in (('io::csv::', 'csv'), ('io::arrow::', 'arrow'), ('io::parquet::', 'parquet')):
        if mod in key:
            anchor_feat = feat
    if 'floor' in key:
        return False
    return anchor_feat is None or anchor_feat in have


def selftest_one(args):
    pid, patch, kind, tdir = args
    S = tempfile.mkdtemp(prefix='mcmc-st-')
    try:
        subprocess.run(['rsync', '-a', '--exclude', 'target', '--exclude', '.git', '/repo/', S + '/repo/'], check=True)
        r = subprocess.run(['patch', '-p1', '-s', '--dry-run', '-i', patch], cwd=S + '/repo', capture_output=True, text=True)
        if r.returncode != 0:
            return (patch, kind, 'skipped: patch does not apply to the current tree', [])
        subprocess.run(['patch', '-p1', '-s', '-i', patch], cwd=S + '/repo', check=True)
        ok, err = extract(S + '/facts.json', S + '/repo', target=tdir)
        if not ok:
            return (patch, kind, 'skipped: does not compile', [])
        env = dict(os.environ)
        env['VERIF_NO_EVIDENCE'] = '1'
        env['VERIF_REPLAY_DIR'] = S
        r = subprocess.run([sys.executable, '-m', 'rules.runner', pid, S + '/facts.json', 'selftest'], cwd=V, env=env, capture_output=True, text=True)
        keys = re.findall(r'^\s+key\s+(.*)$', r.stdout, re.M)
        return (patch, kind, 'ran', sorted(keys))
    finally:
        shutil.rmtree(S, ignore_errors=True)


def main():
    pid = sys.argv[1]
    t0 = float(os.environ.get('CHECK_T0', time.time()))
    W = tempfile.mkdtemp(prefix='mcmc-thorough-')
    rc = 0
    out = []
    try:
        facts = os.path.join(W, 'facts.json')
        ok, err = extract(facts)
        if not ok:
            print('check: fact extraction failed — no verdict\n' + err, file=sys.stderr)
            sys.exit(2)
        ctx, viol, known, lines, ev = spec_on(pid, facts)
        for l in lines:
            print(l)
        base_keys = set(o.key for o in viol) | set(o.key for o, _ in known)
        cov = ev['coverage']
        # ---- (a) configuration matrix
        matrix = []
        for name, feats, prof in CONFIGS:
            fp = os.path.join(W, 'facts-%s.json' % name)
            ok, err = extract(fp, features=feats, profile=prof)
            if not ok:
                matrix.append({'config': name, 'result': 'extraction failed'})
                print('CHECKER-FAILURE: extraction failed for configuration %s' % name)
                rc = max(rc, 2)
                continue
            c2, v2, k2, l2, e2 = spec_on(pid, fp)
            extra = [o for o in v2 if o.key not in base_keys and applicable(pid, o.key, feats)]
            matrix.append({'config': name, 'features': feats, 'profile': prof, 'obligations': len(c2.obs), 'new_violations': [o.key for o in extra]})
            for i, o in enumerate(extra):
                rp = os.path.join(V, 'evidence', 'replay', '%s-%s-%d.json' % (pid, name, i))
                json.dump({'property': pid, 'key': o.key, 'config': name, 'obligation': o.to_json()}, open(rp, 'w'), indent=1)
                print('VIOLATION property=%s replay=%s' % (pid, rp))
                print('  key      %s   [configuration %s]' % (o.key, name))
                viol.append(o)
        cov['configuration_matrix'] = matrix
        # ---- (c) THIR/MIR cross-validation
        nb, ns, bad = crossval(facts)
        cov['thir_mir_crossvalidation'] = {'bodies': nb, 'distinct_callees_checked': ns, 'mismatches': bad}
        if bad:
            print('CHECKER-FAILURE: THIR/MIR call-site disagreement: %s' % '; '.join(bad[:5]))
            rc = max(rc, 2)
        # ---- engine self-test (term algebra identities / non-identities)
        from . import engine_selftest
        ef = engine_selftest.run()
        cov['engine_selftest'] = {'failures': ef}
        if ef:
            rc = max(rc, 2)
            print('CHECKER-FAILURE: term algebra self-test: ' + '; '.join(ef[:3]))
        # ---- evaluator self-test on the fixture crate (pairs that must / must not have the same normal form)
        try:
            from . import fixture_selftest
            fx_t = tempfile.mkdtemp(prefix='mcmc-fixture-')
            try:
                envf = dict(os.environ, MCMC_TARGET_DIR=os.path.join(fx_t, 'target'))
                rf = subprocess.run([os.path.join(V, 'bin', 'extract.sh'), os.path.join(fx_t, 'facts.json'), os.path.join(V, 'fixtures', 'evalforms'), 'none'], capture_output=True, text=True, env=envf)
                if rf.returncode != 0:
                    fxf = ['fixture crate could not be analysed: ' + rf.stderr[-300:]]
                    n_eq = n_ne = 0
                else:
                    n_eq, n_ne, fxf = fixture_selftest.run(os.path.join(fx_t, 'facts.json'))
            finally:
                shutil.rmtree(fx_t, ignore_errors=True)
        except Exception as e:      # fail closed
            n_eq = n_ne = 0
            fxf = ['fixture self-test crashed: %r' % (e,)]
        cov['fixture_selftest'] = {'equal_pairs': n_eq, 'distinct_pairs': n_ne, 'failures': fxf}
        if fxf or n_eq < 31 or n_ne < 18:
            rc = max(rc, 2)
            print('CHECKER-FAILURE: evaluator fixture self-test: ' + '; '.join(fxf[:2])[:400])
        # ---- (b) self-test matrix
        patches = [(p, 'mutant') for p in sorted(glob.glob(os.path.join(V, 'selftest', 'mutants', pid + '_*.diff')))]
        patches += [(p, 'seeded') for p in sorted(glob.glob(os.path.join(V, 'seeded', pid + '_*', 'patch.diff')))]
        # every behaviour-preserving variant, whichever property it was written for, must leave THIS property's result unchanged
        patches += [(p, 'benign') for p in sorted(glob.glob(os.path.join(V, 'selftest', 'benign', '*.diff')))]
        nworkers = min(8, max(1, len(patches)))
        tdirs = []
        src_t = os.environ.get('MCMC_TARGET_DIR', os.path.join(V, '.cache', 'target'))
        for i in range(nworkers):
            d = os.path.join(W, 'target%d' % i)
            shutil.copytree(src_t, d, symlinks=True)
            tdirs.append(d)
        results = []
        # static assignment of target dirs to workers: patch i uses dir i % nworkers, run in waves
        with ThreadPoolExecutor(max_workers=nworkers) as ex:
            for w0 in range(0, len(patches), nworkers):
                wave = patches[w0:w0 + nworkers]
                results += list(ex.map(selftest_one, [(pid, p, k, tdirs[j]) for j, (p, k) in enumerate(wave)]))
        st = {'mutants_total': 0, 'mutants_detected': 0, 'benign_total': 0, 'benign_silent': 0, 'skipped': [], 'failures': []}
        samples = []
        for patch, kind, status, keys in results:
            name = os.path.relpath(patch, V)
            if status != 'ran':
                st['skipped'].append('%s (%s)' % (name, status))
                continue
            new = [k for k in keys if k not in base_keys]
            if kind in ('mutant', 'seeded'):
                st['mutants_total'] += 1
                if new:
                    st['mutants_detected'] += 1
                else:
                    st['failures'].append('%s: NOT detected' % name)
                samples.append({'patch': name, 'kind': kind, 'new_violation_keys': new[:6]})
            else:
                st['benign_total'] += 1
                if not new and set(keys) <= base_keys | set(keys):
                    if not new:
                        st['benign_silent'] += 1
                if new:
                    st['failures'].append('%s: benign variant raised %s' % (name, new[:3]))
        cov['selftest'] = st
        cov['selftest_samples'] = samples[:40]
        if st['failures']:
            rc = max(rc, 2)
            for f_ in st['failures']:
                print('CHECKER-FAILURE: selftest ' + f_)
        c = cov
        print('%s thorough: %d obligations, %d discharged, %d violated, %d unrecognised; configs %d; selftest mutants %d/%d detected, benign %d/%d silent, %d skipped; THIR/MIR bodies %d' % (
            pid, c['obligations'], c['discharged'], c['violated'], c['unrecognised'], len(matrix), st['mutants_detected'], st['mutants_total'], st['benign_silent'], st['benign_total'], len(st['skipped']), nb))
        ev['wall_s'] = round(time.time() - t0, 2)
        ev['tier'] = 'thorough'
        ev['violations'] = len(viol)
        ev['coverage']['checker_cmd'] = './check %s thorough' % pid
        json.dump(ev, open(os.path.join(V, 'evidence', pid + '.json'), 'w'), indent=1)
        if viol:
            rc = 1
    finally:
        shutil.rmtree(W, ignore_errors=True)
    sys.exit(rc)


if __name__ == '__main__':
    main()
