//! Engine fixture: pairs of functions the value-flow evaluator must give the SAME normal form (`eq_*_a` / `eq_*_b`) and pairs it must
//! tell apart (`ne_*_a` / `ne_*_b`).  Compiled under the crate name the driver listens for; std only.
#![allow(clippy::all)]
use std::sync::mpsc::Sender;

// ---- collections: for + push  vs  map().collect()
pub fn eq_collect_a(n: usize, xs: &[f64]) -> Vec<f64> {
    let mut v = Vec::new();
    for i in 0..n {
        v.push(xs[i] * 2.0);
    }
    v
}
pub fn eq_collect_b(n: usize, xs: &[f64]) -> Vec<f64> {
    (0..n).map(|i| xs[i] * 2.0).collect()
}

// ---- counted while vs for (sum accumulator)
pub fn eq_while_a(n: usize, xs: &[f64]) -> f64 {
    let mut s = 0.0;
    for i in 0..n {
        s += xs[i];
    }
    s
}
pub fn eq_while_b(n: usize, xs: &[f64]) -> f64 {
    let mut s = 0.0;
    let mut i = 0;
    while i < n {
        s += xs[i];
        i += 1;
    }
    s
}

// ---- continue vs guarded body
pub fn eq_continue_a(n: usize, xs: &[f64]) -> f64 {
    let mut s = 1.0;
    for i in 0..n {
        if xs[i] < 0.0 {
            continue;
        }
        s = s * xs[i];
    }
    s
}
pub fn eq_continue_b(n: usize, xs: &[f64]) -> f64 {
    let mut s = 1.0;
    for i in 0..n {
        if !(xs[i] < 0.0) {
            s = s * xs[i];
        }
    }
    s
}

// ---- checked_sub vs comparison
pub fn eq_checked_sub_a(n: usize, d: usize, out: &mut [f64]) {
    for i in 0..n {
        if let Some(r) = i.checked_sub(d) {
            out[r] = 1.0;
        }
    }
}
pub fn eq_checked_sub_b(n: usize, d: usize, out: &mut [f64]) {
    for i in 0..n {
        if i >= d {
            out[i - d] = 1.0;
        }
    }
}

// ---- slice::get vs bounds test
pub fn eq_get_a(v: &[f64], i: usize) -> f64 {
    match v.get(i) {
        Some(&p) => p.ln(),
        None => f64::NEG_INFINITY,
    }
}
pub fn eq_get_b(v: &[f64], i: usize) -> f64 {
    if i < v.len() {
        v[i].ln()
    } else {
        f64::NEG_INFINITY
    }
}

// ---- array pattern vs indexing
pub fn eq_arraypat_a(m: &[[f64; 2]; 2]) -> f64 {
    let [[a, b], [c, d]] = *m;
    a * d - b * c
}
pub fn eq_arraypat_b(m: &[[f64; 2]; 2]) -> f64 {
    m[0][0] * m[1][1] - m[0][1] * m[1][0]
}

// ---- unzip vs two pushes
pub fn eq_unzip_a(n: usize, xs: &[f64]) -> (Vec<f64>, Vec<f64>) {
    let mut a = vec![];
    let mut b = vec![];
    (0..n).for_each(|i| {
        a.push(xs[i]);
        b.push(xs[i] * xs[i]);
    });
    (a, b)
}
pub fn eq_unzip_b(n: usize, xs: &[f64]) -> (Vec<f64>, Vec<f64>) {
    (0..n).map(|i| (xs[i], xs[i] * xs[i])).unzip()
}

// ---- helper extraction
fn twice_plus(x: f64, y: f64) -> f64 {
    x * 2.0 + y
}
pub fn eq_helper_a(x: f64, y: f64) -> f64 {
    (x * 2.0 + y).exp()
}
pub fn eq_helper_b(x: f64, y: f64) -> f64 {
    twice_plus(x, y).exp()
}

// ---- in-place element-wise map vs into_iter().map().collect()
pub fn eq_inplace_a(probs: Vec<f64>, s: f64) -> Vec<f64> {
    let mut v = probs;
    for p in v.iter_mut() {
        *p = *p / s;
    }
    v
}
pub fn eq_inplace_b(probs: Vec<f64>, s: f64) -> Vec<f64> {
    probs.into_iter().map(|p| p / s).collect()
}

// ---- early return from a scan vs break with a result variable
pub fn eq_scan_a(ps: &[f64], r: f64) -> usize {
    let mut cum = 0.0;
    let mut k = ps.len() - 1;
    for (i, &p) in ps.iter().enumerate() {
        cum += p;
        if r < cum {
            k = i;
            break;
        }
    }
    k
}

// ======================= must be told apart =======================

pub fn ne_strict_a(a: f64, b: f64) -> bool {
    a > b
}
pub fn ne_strict_b(a: f64, b: f64) -> bool {
    a >= b
}

// negation through a comparison changes NaN behaviour
pub fn ne_nan_a(a: f64, b: f64) -> bool {
    a > b
}
pub fn ne_nan_b(a: f64, b: f64) -> bool {
    !(a <= b)
}

pub fn ne_bound_a(n: usize, xs: &[f64]) -> f64 {
    let mut s = 0.0;
    for i in 0..n {
        s += xs[i];
    }
    s
}
pub fn ne_bound_b(n: usize, xs: &[f64]) -> f64 {
    let mut s = 0.0;
    for i in 1..n {
        s += xs[i];
    }
    s
}

// an effect inside a helper that is called conditionally is conditional
fn send_it(tx: &Sender<i32>) {
    let _ = tx.send(1);
}
pub fn ne_cond_event_a(c: bool, tx: &Sender<i32>) {
    if c {
        send_it(tx);
    }
}
pub fn ne_cond_event_b(_c: bool, tx: &Sender<i32>) {
    send_it(tx);
}

// while that steps by two is not the counted loop
pub fn ne_stride_a(n: usize, xs: &[f64]) -> f64 {
    let mut s = 0.0;
    let mut i = 0;
    while i < n {
        s += xs[i];
        i += 1;
    }
    s
}
pub fn ne_stride_b(n: usize, xs: &[f64]) -> f64 {
    let mut s = 0.0;
    let mut i = 0;
    while i < n {
        s += xs[i];
        i += 2;
    }
    s
}

// continue BEFORE the update skips it; after the update it does not
pub fn ne_continue_a(n: usize, xs: &[f64]) -> f64 {
    let mut s = 1.0;
    for i in 0..n {
        if xs[i] < 0.0 {
            continue;
        }
        s = s * xs[i];
    }
    s
}
pub fn ne_continue_b(n: usize, xs: &[f64]) -> f64 {
    let mut s = 1.0;
    for i in 0..n {
        s = s * xs[i];
        if xs[i] < 0.0 {
            continue;
        }
    }
    s
}

// float arithmetic: a sum in another order is the same real number (the engine works over the reals) but a different divisor is not
pub fn ne_divisor_a(s: f64, n: f64) -> f64 {
    s / n
}
pub fn ne_divisor_b(s: f64, n: f64) -> f64 {
    s / (n - 1.0)
}

// v.get(i) with the wrong fallback
pub fn ne_get_a(v: &[f64], i: usize) -> f64 {
    match v.get(i) {
        Some(&p) => p,
        None => 0.0,
    }
}
pub fn ne_get_b(v: &[f64], i: usize) -> f64 {
    match v.get(i) {
        Some(&p) => p,
        None => 1.0,
    }
}

// ======================= second batch =======================

// ---- bool::then + unwrap_or vs if/else
pub fn eq_then_a(x: &[f64]) -> f64 {
    if x.len() >= 2 {
        x[0] + x[1]
    } else {
        0.0
    }
}
pub fn eq_then_b(x: &[f64]) -> f64 {
    (x.len() >= 2).then(|| x[0] + x[1]).unwrap_or(0.0)
}

// ---- mem::take and put back vs direct update
pub fn eq_memtake_a(acc: &mut f64, x: f64) {
    *acc = *acc * 0.5 + x;
}
pub fn eq_memtake_b(acc: &mut f64, x: f64) {
    let old = std::mem::take(acc);
    *acc = old * 0.5 + x;
}

// ---- function item vs closure
pub fn eq_fnitem_a(xs: &[f64]) -> Vec<f64> {
    xs.iter().map(|x| x.abs()).collect()
}
pub fn eq_fnitem_b(xs: &[f64]) -> Vec<f64> {
    xs.iter().copied().map(f64::abs).collect()
}

// ---- nested guards vs conjunction
pub fn eq_nested_a(a: bool, b: bool, x: f64, y: f64) -> f64 {
    if a {
        if b {
            x
        } else {
            y
        }
    } else {
        y
    }
}
pub fn eq_nested_b(a: bool, b: bool, x: f64, y: f64) -> f64 {
    if a && b {
        x
    } else {
        y
    }
}

// ---- map_or vs match
pub fn eq_mapor_a(v: &[f64], i: usize) -> f64 {
    match v.get(i) {
        Some(&p) => p * 2.0,
        None => -1.0,
    }
}
pub fn eq_mapor_b(v: &[f64], i: usize) -> f64 {
    v.get(i).map_or(-1.0, |&p| p * 2.0)
}

// ======================= must be told apart =======================

pub fn ne_then_a(x: &[f64]) -> f64 {
    (x.len() >= 2).then(|| x[0] + x[1]).unwrap_or(0.0)
}
pub fn ne_then_b(x: &[f64]) -> f64 {
    (x.len() >= 2).then(|| x[0] + x[1]).unwrap_or(1.0)
}

// taken and not put back: the place keeps Default::default()
pub fn ne_memtake_a(acc: &mut f64, x: f64) -> f64 {
    let old = std::mem::take(acc);
    *acc = old;
    old + x
}
pub fn ne_memtake_b(acc: &mut f64, x: f64) -> f64 {
    let old = std::mem::take(acc);
    old + x
}

// the wrong side of map_or
pub fn ne_mapor_a(v: &[f64], i: usize) -> f64 {
    v.get(i).map_or(-1.0, |&p| p * 2.0)
}
pub fn ne_mapor_b(v: &[f64], i: usize) -> f64 {
    v.get(i).map_or(-1.0, |&p| p * 3.0)
}

// checked_sub with the operands swapped
pub fn ne_checked_sub_a(i: usize, d: usize) -> usize {
    i.checked_sub(d).unwrap_or(0)
}
pub fn ne_checked_sub_b(i: usize, d: usize) -> usize {
    d.checked_sub(i).unwrap_or(0)
}

// ---- round 6: let-else with continue vs guarded body
pub fn eq_letelse_a(n: usize, d: usize, out: &mut [f64]) {
    for i in 0..n {
        let Some(r) = i.checked_sub(d) else {
            continue;
        };
        out[r] = 1.0;
    }
}
pub fn eq_letelse_b(n: usize, d: usize, out: &mut [f64]) {
    for i in 0..n {
        if i >= d {
            out[i - d] = 1.0;
        }
    }
}

// repeat_with(..).take(n).collect() vs a push loop (stateful generator)
pub fn eq_repeatwith_a(n: usize, seed: &mut f64) -> Vec<f64> {
    let mut v = Vec::with_capacity(n);
    for _ in 0..n {
        *seed = *seed * 3.0 + 1.0;
        v.push(*seed);
    }
    v
}
pub fn eq_repeatwith_b(n: usize, seed: &mut f64) -> Vec<f64> {
    std::iter::repeat_with(|| {
        *seed = *seed * 3.0 + 1.0;
        *seed
    })
    .take(n)
    .collect()
}

// zip with a skipped copy vs index arithmetic
pub fn eq_skip_a(xs: &[f64]) -> Vec<f64> {
    let n = xs.len();
    let mut out = Vec::new();
    for lag in 0..n {
        let mut s = 0.0;
        for t in 0..(n - lag) {
            s += xs[t] * xs[t + lag];
        }
        out.push(s);
    }
    out
}
pub fn eq_skip_b(xs: &[f64]) -> Vec<f64> {
    let n = xs.len();
    let mut out = Vec::new();
    for lag in 0..n {
        let mut s = 0.0;
        for (a, b) in xs.iter().zip(xs.iter().skip(lag)) {
            s += a * b;
        }
        out.push(s);
    }
    out
}
// skipping one more is different
pub fn ne_skip_a(xs: &[f64]) -> Vec<f64> {
    eq_skip_b(xs)
}
pub fn ne_skip_b(xs: &[f64]) -> Vec<f64> {
    let n = xs.len();
    let mut out = Vec::new();
    for lag in 0..n {
        let mut s = 0.0;
        for (a, b) in xs.iter().zip(xs.iter().skip(lag + 1)) {
            s += a * b;
        }
        out.push(s);
    }
    out
}

// f64::from(flag) vs `flag as i32 as f64`
pub fn eq_frombool_a(a: f64, b: f64, p: f64) -> f64 {
    0.99 * p + 0.01 * ((a != b) as i32 as f64)
}
pub fn eq_frombool_b(a: f64, b: f64, p: f64) -> f64 {
    0.99 * p + 0.01 * f64::from(a != b)
}

// std::iter::zip(a, b) vs a.iter().zip(b.iter())
pub fn eq_iterzip_a(a: &[f64], b: &[f64]) -> f64 {
    let mut s = 0.0;
    for (&x, &y) in a.iter().zip(b.iter()) {
        s += (y - x) * (y - x);
    }
    s
}
pub fn eq_iterzip_b(a: &[f64], b: &[f64]) -> f64 {
    let mut s = 0.0;
    for (&x, &y) in std::iter::zip(a, b) {
        s += (y - x) * (y - x);
    }
    s
}

// chain(..).collect() vs vec + extend
pub fn eq_chain_a(n: usize) -> Vec<usize> {
    let mut v = vec![7usize, 9usize];
    v.extend((0..n).map(|i| i * 2));
    v
}
pub fn eq_chain_b(n: usize) -> Vec<usize> {
    [7usize, 9usize].into_iter().chain((0..n).map(|i| i * 2)).collect()
}
// the two parts in the other order
pub fn ne_chain_a(n: usize) -> Vec<usize> {
    eq_chain_b(n)
}
pub fn ne_chain_b(n: usize) -> Vec<usize> {
    (0..n).map(|i| i * 2).chain([7usize, 9usize]).collect()
}

// inspect_err(..)? vs match with an early return
pub fn eq_inspect_a(r: Result<f64, String>, log: &mut Vec<String>) -> Result<f64, String> {
    let v = match r {
        Ok(v) => v,
        Err(e) => {
            log.push(e.clone());
            return Err(e);
        }
    };
    Ok(v * 2.0)
}
pub fn eq_inspect_b(r: Result<f64, String>, log: &mut Vec<String>) -> Result<f64, String> {
    let v = r.inspect_err(|e| log.push(e.clone()))?;
    Ok(v * 2.0)
}

// zip with an unbounded counter vs enumerate
pub fn eq_rangefrom_a(seed: u64, xs: &mut [u64]) {
    for (i, x) in xs.iter_mut().enumerate() {
        *x = seed.wrapping_add(i as u64);
    }
}
pub fn eq_rangefrom_b(seed: u64, xs: &mut [u64]) {
    for (i, x) in std::iter::zip(0u64.., xs.iter_mut()) {
        *x = seed.wrapping_add(i);
    }
}

// ---- round 7: hand-advanced iterators and shrinking slices
pub fn eq_cursor_a(n: usize, xs: &[f64], out: &mut [f64]) {
    for k in 0..n {
        out[k] = xs[k] * 2.0;
    }
}
pub fn eq_cursor_b(n: usize, xs: &[f64], out: &mut [f64]) {
    let mut it = xs.iter();
    for k in 0..n {
        let x = it.next().unwrap();
        out[k] = x * 2.0;
    }
}
// advancing twice per iteration reads every other element
pub fn ne_cursor_a(n: usize, xs: &[f64], out: &mut [f64]) {
    eq_cursor_b(n, xs, out)
}
pub fn ne_cursor_b(n: usize, xs: &[f64], out: &mut [f64]) {
    let mut it = xs.iter();
    for k in 0..n {
        let _skip = it.next();
        let x = it.next().unwrap();
        out[k] = x * 2.0;
    }
}

pub fn eq_splitat_a(n: usize, d: usize, flat: &[f64]) -> Vec<f64> {
    let mut out = Vec::new();
    for r in 0..n {
        out.push(flat[r * d] + flat[r * d + 1]);
    }
    out
}
pub fn eq_splitat_b(n: usize, d: usize, flat: &[f64]) -> Vec<f64> {
    let mut out = Vec::new();
    let mut rest = flat;
    for _ in 0..n {
        let (row, tail) = rest.split_at(d);
        out.push(row[0] + row[1]);
        rest = tail;
    }
    out
}
// forgetting to move on reads the first row every time
pub fn ne_splitat_a(n: usize, d: usize, flat: &[f64]) -> Vec<f64> {
    eq_splitat_b(n, d, flat)
}
pub fn ne_splitat_b(n: usize, d: usize, flat: &[f64]) -> Vec<f64> {
    let mut out = Vec::new();
    let rest = flat;
    for _ in 0..n {
        let (row, _tail) = rest.split_at(d);
        out.push(row[0] + row[1]);
    }
    out
}

// a row buffer cleared and refilled vs a fresh vector per row
pub fn eq_clear_a(n: usize, xs: &[f64]) -> Vec<f64> {
    let mut out = Vec::new();
    for i in 0..n {
        let row = vec![xs[i], xs[i] + 1.0];
        out.push(row[0] * row[1]);
    }
    out
}
pub fn eq_clear_b(n: usize, xs: &[f64]) -> Vec<f64> {
    let mut out = Vec::new();
    let mut row: Vec<f64> = Vec::new();
    for i in 0..n {
        row.clear();
        row.push(xs[i]);
        row.push(xs[i] + 1.0);
        out.push(row[0] * row[1]);
    }
    out
}

// ---- round 8: private enums, break values, labelled blocks, extension traits
#[derive(Clone, Copy, PartialEq)]
enum Verdict {
    Take,
    Keep,
}
impl Verdict {
    fn of(ratio: f64, lnu: f64) -> Self {
        if ratio > lnu {
            Verdict::Take
        } else {
            Verdict::Keep
        }
    }
}
pub fn eq_enum_a(ratio: f64, lnu: f64, cur: f64, prop: f64) -> f64 {
    if ratio > lnu {
        prop
    } else {
        cur
    }
}
pub fn eq_enum_b(ratio: f64, lnu: f64, cur: f64, prop: f64) -> f64 {
    match Verdict::of(ratio, lnu) {
        Verdict::Take => prop,
        Verdict::Keep => cur,
    }
}
// the arms exchanged
pub fn ne_enum_a(ratio: f64, lnu: f64, cur: f64, prop: f64) -> f64 {
    eq_enum_b(ratio, lnu, cur, prop)
}
pub fn ne_enum_b(ratio: f64, lnu: f64, cur: f64, prop: f64) -> f64 {
    match Verdict::of(ratio, lnu) {
        Verdict::Take => cur,
        Verdict::Keep => prop,
    }
}

pub fn eq_breakval_a(n: usize, xs: &mut [f64]) -> f64 {
    for i in 0..n {
        xs[i] = xs[i] + 1.0;
    }
    xs[0]
}
pub fn eq_breakval_b(n: usize, xs: &mut [f64]) -> f64 {
    let mut i = 0;
    loop {
        if i >= n {
            break xs[0];
        }
        xs[i] = xs[i] + 1.0;
        i += 1;
    }
}

trait Squared: Sized + Copy + std::ops::Mul<Output = Self> {
    fn squared(self) -> Self {
        self * self
    }
}
impl Squared for f64 {}
pub fn eq_exttrait_a(x: f64, s: f64) -> f64 {
    -(x * x) / (2.0 * (s * s))
}
pub fn eq_exttrait_b(x: f64, s: f64) -> f64 {
    -(x.squared()) / (2.0 * s.squared())
}

// ---- round 10: count-down and length-counted while loops, resize, boolean guard clauses
pub fn eq_countdown_a(n: usize, xs: &mut [f64]) {
    for _ in 0..n {
        xs[0] = xs[0] * 0.5 + 1.0;
    }
}
pub fn eq_countdown_b(n: usize, xs: &mut [f64]) {
    let mut left = n;
    while left > 0 {
        left -= 1;
        xs[0] = xs[0] * 0.5 + 1.0;
    }
}

pub fn eq_lenwhile_a(d: usize, seed: &mut f64) -> Vec<f64> {
    let mut v = Vec::with_capacity(d);
    for _ in 0..d {
        *seed = *seed * 3.0 + 1.0;
        v.push(*seed);
    }
    v
}
pub fn eq_lenwhile_b(d: usize, seed: &mut f64) -> Vec<f64> {
    let mut v: Vec<f64> = Vec::with_capacity(d);
    while v.len() < d {
        *seed = *seed * 3.0 + 1.0;
        v.push(*seed);
    }
    v
}

pub fn eq_guardbool_a(a: f64, b: f64) -> bool {
    a >= 0.0 && b >= 0.0
}
pub fn eq_guardbool_b(a: f64, b: f64) -> bool {
    if !(a >= 0.0) {
        return false;
    }
    b >= 0.0
}
// `||` is not `&&`
pub fn ne_guardbool_a(a: f64, b: f64) -> bool {
    eq_guardbool_b(a, b)
}
pub fn ne_guardbool_b(a: f64, b: f64) -> bool {
    if a >= 0.0 {
        return true;
    }
    b >= 0.0
}
