use crate::common::*;
use crate::json::J;
use rustc_hir as hir;
use rustc_hir::def_id::LocalDefId;
use rustc_middle::thir::{self, *};
use rustc_middle::ty::{self, TyCtxt};

pub struct Ex<'a, 'tcx> {
    pub tcx: TyCtxt<'tcx>,
    pub thir: &'a Thir<'tcx>,
    pub owner: LocalDefId,
}

fn var_id(v: LocalVarId) -> String {
    let h = v.0;
    format!("{}:{}", h.owner.def_id.local_def_index.as_u32(), h.local_id.as_u32())
}

impl<'a, 'tcx> Ex<'a, 'tcx> {
    fn var_name(&self, v: LocalVarId) -> String {
        self.tcx.hir_name(v.0).to_string()
    }

    fn opt_expr(&self, e: Option<ExprId>) -> J {
        match e {
            Some(e) => self.expr(e),
            None => J::Null,
        }
    }

    fn exprs(&self, es: &[ExprId]) -> J {
        J::Arr(es.iter().map(|e| self.expr(*e)).collect())
    }

    /// Peel transparent wrappers.
    fn peel(&self, mut id: ExprId) -> ExprId {
        loop {
            match &self.thir[id].kind {
                ExprKind::Scope { value, .. } => id = *value,
                ExprKind::Use { source }
                | ExprKind::NeverToAny { source }
                | ExprKind::ValueTypeAscription { source, .. }
                | ExprKind::PlaceTypeAscription { source, .. } => id = *source,
                _ => return id,
            }
        }
    }

    pub fn expr(&self, id: ExprId) -> J {
        let id = self.peel(id);
        let e = &self.thir[id];
        let tcx = self.tcx;
        let mut o = J::obj();
        let kind: &str;
        match &e.kind {
            ExprKind::Scope { .. }
            | ExprKind::Use { .. }
            | ExprKind::NeverToAny { .. }
            | ExprKind::ValueTypeAscription { .. }
            | ExprKind::PlaceTypeAscription { .. } => unreachable!(),
            ExprKind::If { cond, then, else_opt, .. } => {
                kind = "If";
                o.put("cond", self.expr(*cond));
                o.put("then", self.expr(*then));
                o.put("else", self.opt_expr(*else_opt));
            }
            ExprKind::Call { fun, args, from_hir_call, fn_span, .. } => {
                kind = "Call";
                let f = &self.thir[self.peel(*fun)];
                match f.ty.kind() {
                    ty::FnDef(def, ga) => {
                        o.put("fn", fn_ref(tcx, self.owner, *def, ga));
                    }
                    _ => {
                        o.put("fn", J::Null);
                        o.put("fun_expr", self.expr(*fun));
                    }
                }
                o.put("args", self.exprs(args));
                o.put("hir_call", J::Bool(*from_hir_call));
                o.put("fn_sp", span_j(tcx, *fn_span));
            }
            ExprKind::ByUse { expr, .. } => {
                kind = "ByUse";
                o.put("e", self.expr(*expr));
            }
            ExprKind::Deref { arg } => {
                kind = "Deref";
                o.put("e", self.expr(*arg));
            }
            ExprKind::Binary { op, lhs, rhs } => {
                kind = "Binary";
                o.put("op", J::s(format!("{:?}", op)));
                o.put("l", self.expr(*lhs));
                o.put("r", self.expr(*rhs));
            }
            ExprKind::LogicalOp { op, lhs, rhs } => {
                kind = "Logical";
                o.put("op", J::s(format!("{:?}", op)));
                o.put("l", self.expr(*lhs));
                o.put("r", self.expr(*rhs));
            }
            ExprKind::Unary { op, arg } => {
                kind = "Unary";
                o.put("op", J::s(format!("{:?}", op)));
                o.put("e", self.expr(*arg));
            }
            ExprKind::Cast { source } => {
                kind = "Cast";
                o.put("e", self.expr(*source));
            }
            ExprKind::PointerCoercion { cast, source, .. } => {
                kind = "Coerce";
                o.put("cast", J::s(format!("{:?}", cast)));
                o.put("e", self.expr(*source));
            }
            ExprKind::Loop { body } => {
                kind = "Loop";
                o.put("body", self.expr(*body));
            }
            ExprKind::Let { expr, pat } => {
                kind = "Let";
                o.put("e", self.expr(*expr));
                o.put("pat", self.pat(pat));
            }
            ExprKind::Match { scrutinee, arms, match_source } => {
                kind = "Match";
                o.put("scrut", self.expr(*scrutinee));
                o.put("source", J::s(format!("{:?}", match_source)));
                o.put(
                    "arms",
                    J::Arr(
                        arms.iter()
                            .map(|a| {
                                let arm = &self.thir[*a];
                                J::obj()
                                    .set("pat", self.pat(&arm.pattern))
                                    .set("guard", self.opt_expr(arm.guard))
                                    .set("body", self.expr(arm.body))
                                    .set("sp", span_j(tcx, arm.span))
                            })
                            .collect(),
                    ),
                );
            }
            ExprKind::Block { block } => {
                kind = "Block";
                let b = &self.thir[*block];
                o.put("break_target", J::Bool(b.targeted_by_break));
                o.put("label", J::s(format!("{:?}", b.region_scope)));
                o.put("stmts", J::Arr(b.stmts.iter().map(|s| self.stmt(*s)).collect()));
                o.put("expr", self.opt_expr(b.expr));
            }
            ExprKind::Assign { lhs, rhs } => {
                kind = "Assign";
                o.put("l", self.expr(*lhs));
                o.put("r", self.expr(*rhs));
            }
            ExprKind::AssignOp { op, lhs, rhs } => {
                kind = "AssignOp";
                o.put("op", J::s(format!("{:?}", op)));
                o.put("l", self.expr(*lhs));
                o.put("r", self.expr(*rhs));
            }
            ExprKind::Field { lhs, variant_index, name } => {
                kind = "Field";
                let lt = self.thir[*lhs].ty;
                o.put("idx", J::Int(name.as_u32() as i128));
                if let ty::Adt(adt, _) = lt.kind() {
                    let v = adt.variant(*variant_index);
                    o.put("name", J::s(v.fields[*name].name.to_string()));
                    o.put("adt", J::s(path_str(tcx, adt.did())));
                    if adt.is_enum() {
                        o.put("variant", J::s(v.name.to_string()));
                    }
                }
                o.put("e", self.expr(*lhs));
            }
            ExprKind::Index { lhs, index } => {
                kind = "Index";
                o.put("e", self.expr(*lhs));
                o.put("i", self.expr(*index));
            }
            ExprKind::VarRef { id } => {
                kind = "Var";
                o.put("var", J::s(var_id(*id)));
                o.put("name", J::s(self.var_name(*id)));
            }
            ExprKind::UpvarRef { closure_def_id, var_hir_id } => {
                kind = "Upvar";
                o.put("var", J::s(var_id(*var_hir_id)));
                o.put("name", J::s(self.var_name(*var_hir_id)));
                o.put("closure", J::s(did_str(*closure_def_id)));
            }
            ExprKind::Borrow { borrow_kind, arg } => {
                kind = "Borrow";
                let m = matches!(borrow_kind, rustc_middle::mir::BorrowKind::Mut { .. });
                o.put("mut", J::Bool(m));
                o.put("e", self.expr(*arg));
            }
            ExprKind::RawBorrow { mutability, arg } => {
                kind = "RawBorrow";
                o.put("mut", J::Bool(mutability.is_mut()));
                o.put("e", self.expr(*arg));
            }
            ExprKind::Break { label, value } => {
                kind = "Break";
                o.put("label", J::s(format!("{:?}", label)));
                o.put("value", self.opt_expr(*value));
            }
            ExprKind::Continue { label } => {
                kind = "Continue";
                o.put("label", J::s(format!("{:?}", label)));
            }
            ExprKind::Return { value } => {
                kind = "Return";
                o.put("value", self.opt_expr(*value));
            }
            ExprKind::Repeat { value, count } => {
                kind = "Repeat";
                o.put("value", self.expr(*value));
                o.put("count", J::s(format!("{}", count)));
            }
            ExprKind::Array { fields } => {
                kind = "Array";
                o.put("fields", self.exprs(fields));
            }
            ExprKind::Tuple { fields } => {
                kind = "Tuple";
                o.put("fields", self.exprs(fields));
            }
            ExprKind::Adt(adt) => {
                kind = "Adt";
                let v = adt.adt_def.variant(adt.variant_index);
                o.put("adt", J::s(path_str(tcx, adt.adt_def.did())));
                o.put("variant", J::s(v.name.to_string()));
                o.put(
                    "fields",
                    J::Arr(
                        adt.fields
                            .iter()
                            .map(|f| {
                                J::obj()
                                    .set("idx", J::Int(f.name.as_u32() as i128))
                                    .set("name", J::s(v.fields[f.name].name.to_string()))
                                    .set("e", self.expr(f.expr))
                            })
                            .collect(),
                    ),
                );
                match &adt.base {
                    AdtExprBase::None => {}
                    AdtExprBase::Base(fru) => o.put("base", self.expr(fru.base)),
                    AdtExprBase::DefaultFields(_) => o.put("base", J::s("default")),
                }
            }
            ExprKind::Closure(c) => {
                kind = "Closure";
                o.put("def", J::s(did_str(c.closure_id.to_def_id())));
                o.put("upvars", self.exprs(&c.upvars));
            }
            ExprKind::Literal { lit, neg } => {
                kind = "Lit";
                o.put("neg", J::Bool(*neg));
                use rustc_ast::ast::LitKind;
                match &lit.node {
                    LitKind::Int(v, _) => {
                        o.put("lit", J::s("int"));
                        o.put("v", J::s(format!("{}", v.get())));
                    }
                    LitKind::Float(sym, _) => {
                        o.put("lit", J::s("float"));
                        o.put("v", J::s(sym.to_string()));
                    }
                    LitKind::Bool(b) => {
                        o.put("lit", J::s("bool"));
                        o.put("v", J::Bool(*b));
                    }
                    LitKind::Str(sym, _) => {
                        o.put("lit", J::s("str"));
                        o.put("v", J::s(sym.to_string()));
                    }
                    other => {
                        o.put("lit", J::s("other"));
                        o.put("v", J::s(format!("{:?}", other)));
                    }
                }
            }
            ExprKind::NonHirLiteral { lit, .. } => {
                kind = "Lit";
                o.put("lit", J::s("scalar"));
                o.put("v", J::s(format!("{:?}", lit)));
            }
            ExprKind::ZstLiteral { .. } => {
                kind = "Zst";
                if let ty::FnDef(def, ga) = e.ty.kind() {
                    o.put("fn", fn_ref(tcx, self.owner, *def, ga));
                }
            }
            ExprKind::NamedConst { def_id, args, .. } => {
                kind = "Const";
                o.put("def", J::s(did_str(*def_id)));
                o.put("path", J::s(path_str(tcx, *def_id)));
                o.put("local", J::Bool(def_id.is_local()));
                o.put("args", args_j(args));
            }
            ExprKind::ConstParam { param, .. } => {
                kind = "ConstParam";
                o.put("name", J::s(param.name.to_string()));
            }
            ExprKind::StaticRef { def_id, .. } => {
                kind = "StaticRef";
                o.put("path", J::s(path_str(tcx, *def_id)));
            }
            ExprKind::ThreadLocalRef(def_id) => {
                kind = "ThreadLocalRef";
                o.put("path", J::s(path_str(tcx, *def_id)));
            }
            _ => {
                // Unknown / unsupported kind: keep children so def-use edges are not lost.
                kind = "Other";
                o.put("dbg", J::s(format!("{:?}", e.kind).chars().take(80).collect::<String>()));
                struct V<'b, 'tcx> {
                    thir: &'b Thir<'tcx>,
                    kids: Vec<ExprId>,
                    depth: usize,
                }
                impl<'b, 'tcx> thir::visit::Visitor<'b, 'tcx> for V<'b, 'tcx> {
                    fn thir(&self) -> &'b Thir<'tcx> {
                        self.thir
                    }
                    fn visit_expr(&mut self, ex: &'b Expr<'tcx>) {
                        if self.depth == 0 {
                            self.depth += 1;
                            thir::visit::walk_expr(self, ex);
                            self.depth -= 1;
                        } else {
                            // record direct children only (by address identity)
                            for (i, cand) in self.thir.exprs.iter_enumerated() {
                                if std::ptr::eq(cand, ex) {
                                    self.kids.push(i);
                                }
                            }
                        }
                    }
                }
                let mut v = V { thir: self.thir, kids: vec![], depth: 0 };
                thir::visit::Visitor::visit_expr(&mut v, e);
                o.put("kids", self.exprs(&v.kids));
            }
        }
        let mut out = J::kind(kind);
        out.put("id", J::Int(id.as_u32() as i128));
        out.put("ty", J::s(ty_str(e.ty)));
        out.put("sp", span_j(tcx, e.span));
        if e.span.from_expansion() {
            out.put("exp", J::Bool(true));
        }
        if let (J::Obj(ref mut a), J::Obj(b)) = (&mut out, o) {
            a.extend(b);
        }
        out
    }

    fn stmt(&self, s: StmtId) -> J {
        match &self.thir[s].kind {
            StmtKind::Expr { expr, .. } => J::kind("Expr").set("e", self.expr(*expr)),
            StmtKind::Let { pattern, initializer, else_block, span, .. } => {
                let mut o = J::kind("Let")
                    .set("pat", self.pat(pattern))
                    .set("init", self.opt_expr(*initializer))
                    .set("sp", span_j(self.tcx, *span));
                if let Some(b) = else_block {
                    let b = &self.thir[*b];
                    o.put(
                        "else",
                        J::kind("Block")
                            .set("stmts", J::Arr(b.stmts.iter().map(|s| self.stmt(*s)).collect()))
                            .set("expr", self.opt_expr(b.expr)),
                    );
                }
                o
            }
        }
    }

    pub fn pat(&self, p: &Pat<'tcx>) -> J {
        let tcx = self.tcx;
        let mut o = match &p.kind {
            PatKind::Missing => J::kind("Missing"),
            PatKind::Wild => J::kind("Wild"),
            PatKind::Binding { name, mode, var, subpattern, .. } => {
                let mut o = J::kind("Binding")
                    .set("name", J::s(name.to_string()))
                    .set("var", J::s(var_id(*var)))
                    .set("mut", J::Bool(mode.1.is_mut()))
                    .set(
                        "by_ref",
                        J::Bool(!matches!(mode.0, hir::ByRef::No)),
                    )
                    .set(
                        "by_ref_mut",
                        J::Bool(matches!(mode.0, hir::ByRef::Yes(_, m) if m.is_mut())),
                    );
                if let Some(sp) = subpattern {
                    o.put("sub", self.pat(sp));
                }
                o
            }
            PatKind::Variant { adt_def, variant_index, subpatterns, .. } => {
                let v = adt_def.variant(*variant_index);
                J::kind("Variant")
                    .set("adt", J::s(path_str(tcx, adt_def.did())))
                    .set("variant", J::s(v.name.to_string()))
                    .set("subs", self.field_pats(subpatterns, Some(v)))
            }
            PatKind::Leaf { subpatterns } => {
                let v = match p.ty.kind() {
                    ty::Adt(adt, _) if adt.is_struct() => Some(adt.non_enum_variant()),
                    _ => None,
                };
                J::kind("Leaf").set("subs", self.field_pats(subpatterns, v))
            }
            PatKind::Deref { subpattern, .. } => J::kind("Deref").set("sub", self.pat(subpattern)),
            PatKind::DerefPattern { subpattern, .. } => {
                J::kind("Deref").set("sub", self.pat(subpattern))
            }
            PatKind::Constant { value } => {
                J::kind("Constant").set("v", J::s(format!("{:?}", value)))
            }
            PatKind::Array { prefix, slice, suffix } | PatKind::Slice { prefix, slice, suffix } => {
                let mut o = J::kind(if matches!(&p.kind, PatKind::Array { .. }) { "Array" } else { "Slice" })
                    .set("prefix", J::Arr(prefix.iter().map(|q| self.pat(q)).collect()))
                    .set("suffix", J::Arr(suffix.iter().map(|q| self.pat(q)).collect()));
                if let Some(sl) = slice {
                    o.put("slice", self.pat(sl));
                }
                o
            }
            PatKind::Or { pats } => {
                J::kind("Or").set("pats", J::Arr(pats.iter().map(|p| self.pat(p)).collect()))
            }
            other => J::kind("OtherPat")
                .set("dbg", J::s(format!("{:?}", other).chars().take(80).collect::<String>())),
        };
        o.put("ty", J::s(ty_str(p.ty)));
        o
    }

    fn field_pats(&self, fps: &[FieldPat<'tcx>], v: Option<&ty::VariantDef>) -> J {
        J::Arr(
            fps.iter()
                .map(|fp| {
                    let mut o = J::obj().set("idx", J::Int(fp.field.as_u32() as i128));
                    if let Some(v) = v {
                        o.put("name", J::s(v.fields[fp.field].name.to_string()));
                    }
                    o.set("pat", self.pat(&fp.pattern))
                })
                .collect(),
        )
    }

    pub fn params(&self) -> J {
        J::Arr(
            self.thir
                .params
                .iter()
                .map(|p| {
                    let mut o = J::obj().set("ty", J::s(ty_str(p.ty)));
                    if let Some(pat) = &p.pat {
                        o.put("pat", self.pat(pat));
                    }
                    if let Some(sk) = &p.self_kind {
                        o.put("self_kind", J::s(format!("{:?}", sk)));
                    }
                    o
                })
                .collect(),
        )
    }
}
