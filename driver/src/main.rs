//! mcmc-facts: rustc_private driver exporting the type-checked program of the workspace crate
//! (items, THIR trees, MIR control-flow graphs) as one JSON document for the rule layer.
#![feature(rustc_private)]
extern crate rustc_abi;
extern crate rustc_ast;
extern crate rustc_driver;
extern crate rustc_hir;
extern crate rustc_interface;
extern crate rustc_middle;
extern crate rustc_span;

mod common;
mod json;
mod mir_export;
mod thir_export;

use common::*;
use json::J;
use rustc_driver::Compilation;
use rustc_hir::def::DefKind;
use rustc_interface::interface::Compiler;
use rustc_middle::ty::TyCtxt;

struct Cb;

fn export<'tcx>(tcx: TyCtxt<'tcx>) -> J {
    let mut bodies = Vec::new();
    for def in tcx.hir_body_owners() {
        let did = def.to_def_id();
        let dk = tcx.def_kind(did);
        let mut b = J::obj()
            .set("did", J::s(did_str(did)))
            .set("path", J::s(path_str(tcx, did)))
            .set("def_kind", J::s(format!("{:?}", dk)))
            .set("sp", span_j(tcx, tcx.def_span(did)));
        let parent = tcx.local_parent(def);
        b.put("parent", J::s(did_str(parent.to_def_id())));
        b.put("parent_path", J::s(path_str(tcx, parent.to_def_id())));
        if tcx.def_span(did).from_expansion() {
            b.put("from_expansion", J::Bool(true));
        }
        if matches!(dk, DefKind::Fn | DefKind::AssocFn) {
            b.put("vis", J::s(format!("{:?}", tcx.visibility(did))));
            let sig = tcx.fn_sig(did).instantiate_identity().skip_norm_wip();
            b.put(
                "sig",
                J::s(rustc_middle::ty::print::with_no_trimmed_paths!(format!("{}", sig))),
            );
            let preds = tcx.predicates_of(did).instantiate_identity(tcx);
            b.put(
                "preds",
                J::Arr(
                    preds
                        .predicates
                        .iter()
                        .map(|p| {
                            J::s(rustc_middle::ty::print::with_no_trimmed_paths!(format!(
                                "{}",
                                p.skip_norm_wip()
                            )))
                        })
                        .collect(),
                ),
            );
            if let Some(name) = tcx.opt_item_name(did) {
                b.put("name", J::s(name.to_string()));
            }
            if let Some(assoc) = tcx.opt_associated_item(did) {
                let imp = tcx.parent(did);
                match assoc.container {
                    rustc_middle::ty::AssocContainer::TraitImpl(_) => {
                        let tr = tcx.impl_trait_ref(imp).instantiate_identity().skip_norm_wip();
                        b.put("container", J::s("trait_impl"));
                        b.put("trait", J::s(path_str(tcx, tr.def_id)));
                        b.put("self_ty", J::s(ty_str(tr.self_ty())));
                        b.put(
                            "derived",
                            J::Bool(tcx.is_automatically_derived(imp)),
                        );
                    }
                    rustc_middle::ty::AssocContainer::InherentImpl => {
                        b.put("container", J::s("inherent"));
                        let st = tcx.type_of(imp).instantiate_identity().skip_norm_wip();
                        b.put("self_ty", J::s(ty_str(st)));
                    }
                    rustc_middle::ty::AssocContainer::Trait => {
                        b.put("container", J::s("trait"));
                        b.put("trait", J::s(path_str(tcx, imp)));
                    }
                }
            }
        }
        // THIR
        match tcx.thir_body(def) {
            Ok((thir, root)) => {
                let thir = thir.borrow();
                let ex = thir_export::Ex { tcx, thir: &thir, owner: def };
                b.put("params", ex.params());
                b.put("thir", ex.expr(root));
            }
            Err(_) => b.put("thir", J::Null),
        }
        // MIR (only for things that have it as functions / closures)
        if matches!(dk, DefKind::Fn | DefKind::AssocFn | DefKind::Closure) {
            let body = tcx.optimized_mir(did);
            let mx = mir_export::Mx { tcx, body, owner: def };
            b.put("mir", mx.export());
        }
        bodies.push(b);
    }

    // Items: structs and their fields.
    let mut structs = Vec::new();
    let mut impls = Vec::new();
    for id in tcx.hir_free_items() {
        let did = id.owner_id.to_def_id();
        match tcx.def_kind(did) {
            DefKind::Struct => {
                let adt = tcx.adt_def(did);
                let v = adt.non_enum_variant();
                let fields = v
                    .fields
                    .iter_enumerated()
                    .map(|(i, f)| {
                        J::obj()
                            .set("idx", J::Int(i.as_u32() as i128))
                            .set("name", J::s(f.name.to_string()))
                            .set(
                                "ty",
                                J::s(ty_str(
                                    tcx.type_of(f.did).instantiate_identity().skip_norm_wip(),
                                )),
                            )
                            .set("vis", J::s(format!("{:?}", f.vis)))
                    })
                    .collect();
                structs.push(
                    J::obj()
                        .set("did", J::s(did_str(did)))
                        .set("path", J::s(path_str(tcx, did)))
                        .set("vis", J::s(format!("{:?}", tcx.visibility(did))))
                        .set("fields", J::Arr(fields)),
                );
            }
            DefKind::Impl { of_trait } => {
                let st = tcx.type_of(did).instantiate_identity().skip_norm_wip();
                let mut o = J::obj()
                    .set("did", J::s(did_str(did)))
                    .set("self_ty", J::s(ty_str(st)))
                    .set("sp", span_j(tcx, tcx.def_span(did)));
                if of_trait {
                    let tr = tcx.impl_trait_ref(did).instantiate_identity().skip_norm_wip();
                    o.put("trait", J::s(path_str(tcx, tr.def_id)));
                    o.put("derived", J::Bool(tcx.is_automatically_derived(did)));
                }
                impls.push(o);
            }
            _ => {}
        }
    }
    J::obj()
        .set("crate", J::s(tcx.crate_name(rustc_hir::def_id::LOCAL_CRATE).to_string()))
        .set("bodies", J::Arr(bodies))
        .set("structs", J::Arr(structs))
        .set("impls", J::Arr(impls))
}

impl rustc_driver::Callbacks for Cb {
    fn after_analysis<'tcx>(&mut self, _c: &Compiler, tcx: TyCtxt<'tcx>) -> Compilation {
        let out = std::env::var("MCMC_FACTS_OUT").expect("MCMC_FACTS_OUT not set");
        let j = export(tcx);
        let mut s = String::new();
        j.write(&mut s);
        std::fs::write(&out, s).expect("writing facts");
        Compilation::Continue
    }
}

fn main() {
    let mut args: Vec<String> = std::env::args().collect();
    // RUSTC_WORKSPACE_WRAPPER passes the real rustc as argv[1].
    if args.len() > 1 && (args[1] == "rustc" || args[1].ends_with("/rustc")) {
        args.remove(1);
    }
    let want = std::env::var("MCMC_FACTS_CRATE").unwrap_or_else(|_| "mini_mcmc".to_string());
    let mut is_target = false;
    for w in args.windows(2) {
        if w[0] == "--crate-name" && w[1] == want {
            is_target = true;
        }
    }
    // Only the library target (not build scripts, not tests of other kinds).
    if is_target && std::env::var("MCMC_FACTS_OUT").is_ok() {
        args.push("-Zno-steal-thir".into());
        args.push("-Zmir-opt-level=0".into());
        args.push("-Awarnings".into());
        rustc_driver::run_compiler(&args, &mut Cb);
    } else {
        struct Nop;
        impl rustc_driver::Callbacks for Nop {}
        rustc_driver::run_compiler(&args, &mut Nop);
    }
}
