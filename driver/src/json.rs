//! Minimal hand-written JSON value + serializer (the driver has zero Cargo deps).
use std::fmt::Write;

#[derive(Clone, Debug)]
pub enum J {
    Null,
    Bool(bool),
    Int(i128),
    Str(String),
    Arr(Vec<J>),
    Obj(Vec<(String, J)>),
}

impl J {
    pub fn s<S: Into<String>>(s: S) -> J {
        J::Str(s.into())
    }
    pub fn obj() -> J {
        J::Obj(Vec::new())
    }
    pub fn kind(k: &str) -> J {
        J::Obj(vec![("k".to_string(), J::s(k))])
    }
    pub fn set<S: Into<String>>(mut self, k: S, v: J) -> J {
        if let J::Obj(ref mut o) = self {
            o.push((k.into(), v));
        }
        self
    }
    pub fn put<S: Into<String>>(&mut self, k: S, v: J) {
        if let J::Obj(ref mut o) = self {
            o.push((k.into(), v));
        }
    }
    pub fn opt(o: Option<J>) -> J {
        o.unwrap_or(J::Null)
    }
    pub fn write(&self, out: &mut String) {
        match self {
            J::Null => out.push_str("null"),
            J::Bool(b) => out.push_str(if *b { "true" } else { "false" }),
            J::Int(i) => {
                let _ = write!(out, "{}", i);
            }
            J::Str(s) => esc(s, out),
            J::Arr(a) => {
                out.push('[');
                for (i, x) in a.iter().enumerate() {
                    if i > 0 {
                        out.push(',');
                    }
                    x.write(out);
                }
                out.push(']');
            }
            J::Obj(o) => {
                out.push('{');
                for (i, (k, v)) in o.iter().enumerate() {
                    if i > 0 {
                        out.push(',');
                    }
                    esc(k, out);
                    out.push(':');
                    v.write(out);
                }
                out.push('}');
            }
        }
    }
}

fn esc(s: &str, out: &mut String) {
    out.push('"');
    for c in s.chars() {
        match c {
            '"' => out.push_str("\\\""),
            '\\' => out.push_str("\\\\"),
            '\n' => out.push_str("\\n"),
            '\r' => out.push_str("\\r"),
            '\t' => out.push_str("\\t"),
            c if (c as u32) < 0x20 => {
                let _ = write!(out, "\\u{:04x}", c as u32);
            }
            c => out.push(c),
        }
    }
    out.push('"');
}
