use crate::common::*;
use crate::json::J;
use rustc_hir::def_id::LocalDefId;
use rustc_middle::mir::*;
use rustc_middle::ty::{self, TyCtxt};

pub struct Mx<'a, 'tcx> {
    pub tcx: TyCtxt<'tcx>,
    pub body: &'a Body<'tcx>,
    pub owner: LocalDefId,
}

impl<'a, 'tcx> Mx<'a, 'tcx> {
    fn place(&self, p: &Place<'tcx>) -> J {
        let mut proj = Vec::new();
        let mut ty = PlaceTy::from_ty(self.body.local_decls[p.local].ty);
        for elem in p.projection.iter() {
            let j = match elem {
                ProjectionElem::Deref => J::kind("Deref"),
                ProjectionElem::Field(f, _) => {
                    let mut o = J::kind("Field").set("idx", J::Int(f.as_u32() as i128));
                    if let ty::Adt(adt, _) = ty.ty.kind() {
                        let v = match ty.variant_index {
                            Some(vi) => Some(adt.variant(vi)),
                            None if adt.is_struct() => Some(adt.non_enum_variant()),
                            None => None,
                        };
                        if let Some(v) = v {
                            o.put("name", J::s(v.fields[f].name.to_string()));
                        }
                    }
                    o
                }
                ProjectionElem::Index(l) => {
                    J::kind("Index").set("local", J::Int(l.as_u32() as i128))
                }
                ProjectionElem::Downcast(name, _) => J::kind("Downcast")
                    .set("variant", J::s(name.map(|s| s.to_string()).unwrap_or_default())),
                other => J::kind("OtherProj").set("dbg", J::s(format!("{:?}", other))),
            };
            proj.push(j);
            ty = ty.projection_ty(self.tcx, elem);
        }
        J::obj()
            .set("local", J::Int(p.local.as_u32() as i128))
            .set("proj", J::Arr(proj))
    }

    fn operand(&self, o: &Operand<'tcx>) -> J {
        match o {
            Operand::Copy(p) => J::kind("copy").set("place", self.place(p)),
            Operand::Move(p) => J::kind("move").set("place", self.place(p)),
            Operand::Constant(c) => {
                let mut j = J::kind("const")
                    .set("ty", J::s(ty_str(c.const_.ty())))
                    .set("dbg", J::s(format!("{}", c.const_).chars().take(120).collect::<String>()));
                if let ty::FnDef(def, ga) = c.const_.ty().kind() {
                    j.put("fn", fn_ref(self.tcx, self.owner, *def, ga));
                }
                j
            }
            other => J::kind("otherop").set("dbg", J::s(format!("{:?}", other))),
        }
    }

    fn rvalue(&self, r: &Rvalue<'tcx>) -> J {
        match r {
            Rvalue::Use(o, _) => J::kind("Use").set("op", self.operand(o)),
            Rvalue::Ref(_, bk, p) => J::kind("Ref")
                .set("mut", J::Bool(matches!(bk, BorrowKind::Mut { .. })))
                .set("place", self.place(p)),
            Rvalue::RawPtr(_, p) => J::kind("RawPtr").set("place", self.place(p)),
            Rvalue::Cast(k, o, t) => J::kind("Cast")
                .set("cast", J::s(format!("{:?}", k)))
                .set("op", self.operand(o))
                .set("ty", J::s(ty_str(*t))),
            Rvalue::BinaryOp(op, b) => J::kind("BinaryOp")
                .set("op", J::s(format!("{:?}", op)))
                .set("l", self.operand(&b.0))
                .set("r", self.operand(&b.1)),
            Rvalue::UnaryOp(op, o) => J::kind("UnaryOp")
                .set("op", J::s(format!("{:?}", op)))
                .set("op1", self.operand(o)),
            Rvalue::Discriminant(p) => J::kind("Discriminant").set("place", self.place(p)),
            Rvalue::Aggregate(k, ops) => {
                let mut j = J::kind("Aggregate");
                match &**k {
                    AggregateKind::Array(_) => j.put("agg", J::s("array")),
                    AggregateKind::Tuple => j.put("agg", J::s("tuple")),
                    AggregateKind::Adt(def, vi, _, _, _) => {
                        j.put("agg", J::s("adt"));
                        j.put("adt", J::s(path_str(self.tcx, *def)));
                        let adt = self.tcx.adt_def(*def);
                        j.put("variant", J::s(adt.variant(*vi).name.to_string()));
                    }
                    AggregateKind::Closure(def, _) => {
                        j.put("agg", J::s("closure"));
                        j.put("def", J::s(did_str(*def)));
                    }
                    other => j.put("agg", J::s(format!("{:?}", other))),
                }
                j.set("ops", J::Arr(ops.iter().map(|o| self.operand(o)).collect()))
            }
            Rvalue::CopyForDeref(p) => J::kind("CopyForDeref").set("place", self.place(p)),
            Rvalue::Repeat(o, _) => J::kind("Repeat").set("op", self.operand(o)),
            other => J::kind("OtherRv")
                .set("dbg", J::s(format!("{:?}", other).chars().take(120).collect::<String>())),
        }
    }

    fn stmt(&self, s: &Statement<'tcx>) -> Option<J> {
        match &s.kind {
            StatementKind::Assign(b) => Some(
                J::kind("Assign")
                    .set("lhs", self.place(&b.0))
                    .set("rv", self.rvalue(&b.1))
                    .set("sp", span_j(self.tcx, s.source_info.span)),
            ),
            StatementKind::SetDiscriminant { place, .. } => {
                Some(J::kind("SetDiscriminant").set("lhs", self.place(place)))
            }
            _ => None,
        }
    }

    fn bb(b: BasicBlock) -> J {
        J::Int(b.as_u32() as i128)
    }

    fn unwind(u: &UnwindAction) -> J {
        match u {
            UnwindAction::Cleanup(b) => Self::bb(*b),
            _ => J::Null,
        }
    }

    fn term(&self, t: &Terminator<'tcx>) -> J {
        let sp = span_j(self.tcx, t.source_info.span);
        let j = match &t.kind {
            TerminatorKind::Goto { target } => J::kind("Goto").set("target", Self::bb(*target)),
            TerminatorKind::SwitchInt { discr, targets } => J::kind("SwitchInt")
                .set("discr", self.operand(discr))
                .set(
                    "targets",
                    J::Arr(
                        targets
                            .iter()
                            .map(|(v, b)| J::Arr(vec![J::s(format!("{}", v)), Self::bb(b)]))
                            .collect(),
                    ),
                )
                .set("otherwise", Self::bb(targets.otherwise())),
            TerminatorKind::Return => J::kind("Return"),
            TerminatorKind::Unreachable => J::kind("Unreachable"),
            TerminatorKind::UnwindResume => J::kind("UnwindResume"),
            TerminatorKind::UnwindTerminate(_) => J::kind("UnwindTerminate"),
            TerminatorKind::Drop { place, target, unwind, .. } => J::kind("Drop")
                .set("place", self.place(place))
                .set("target", Self::bb(*target))
                .set("unwind", Self::unwind(unwind)),
            TerminatorKind::Call { func, args, destination, target, unwind, fn_span, .. } => {
                let mut j = J::kind("Call");
                match func {
                    Operand::Constant(c) => {
                        if let ty::FnDef(def, ga) = c.const_.ty().kind() {
                            j.put("fn", fn_ref(self.tcx, self.owner, *def, ga));
                        } else {
                            j.put("fn", J::Null);
                        }
                    }
                    other => {
                        j.put("fn", J::Null);
                        j.put("func", self.operand(other));
                    }
                }
                j.set("args", J::Arr(args.iter().map(|a| self.operand(&a.node)).collect()))
                    .set("dest", self.place(destination))
                    .set("target", target.map(Self::bb).unwrap_or(J::Null))
                    .set("unwind", Self::unwind(unwind))
                    .set("fn_sp", span_j(self.tcx, *fn_span))
            }
            TerminatorKind::Assert { cond, expected, msg, target, unwind } => {
                let mk = match &**msg {
                    AssertKind::BoundsCheck { .. } => "BoundsCheck".to_string(),
                    AssertKind::Overflow(op, _, _) => format!("Overflow({:?})", op),
                    AssertKind::OverflowNeg(_) => "OverflowNeg".to_string(),
                    AssertKind::DivisionByZero(_) => "DivisionByZero".to_string(),
                    AssertKind::RemainderByZero(_) => "RemainderByZero".to_string(),
                    _ => "Other".to_string(),
                };
                let mut j = J::kind("Assert")
                    .set("cond", self.operand(cond))
                    .set("expected", J::Bool(*expected))
                    .set("msg", J::s(mk))
                    .set("target", Self::bb(*target))
                    .set("unwind", Self::unwind(unwind));
                if let AssertKind::Overflow(_, l, r) = &**msg {
                    j.put("l", self.operand(l));
                    j.put("r", self.operand(r));
                }
                j
            }
            TerminatorKind::FalseEdge { real_target, .. } => {
                J::kind("Goto").set("target", Self::bb(*real_target))
            }
            TerminatorKind::FalseUnwind { real_target, .. } => {
                J::kind("Goto").set("target", Self::bb(*real_target))
            }
            other => J::kind("OtherTerm")
                .set("dbg", J::s(format!("{:?}", other).chars().take(80).collect::<String>())),
        };
        j.set("sp", sp)
    }

    pub fn export(&self) -> J {
        let body = self.body;
        let mut locals = Vec::new();
        for (l, d) in body.local_decls.iter_enumerated() {
            locals.push(
                J::obj()
                    .set("i", J::Int(l.as_u32() as i128))
                    .set("ty", J::s(ty_str(d.ty))),
            );
        }
        let mut names = Vec::new();
        for vdi in &body.var_debug_info {
            if let VarDebugInfoContents::Place(p) = &vdi.value {
                names.push(
                    J::obj()
                        .set("name", J::s(vdi.name.to_string()))
                        .set("place", self.place(p)),
                );
            }
        }
        let mut blocks = Vec::new();
        for (b, data) in body.basic_blocks.iter_enumerated() {
            let stmts: Vec<J> = data.statements.iter().filter_map(|s| self.stmt(s)).collect();
            blocks.push(
                J::obj()
                    .set("i", Self::bb(b))
                    .set("cleanup", J::Bool(data.is_cleanup))
                    .set("stmts", J::Arr(stmts))
                    .set("term", self.term(data.terminator())),
            );
        }
        J::obj()
            .set("arg_count", J::Int(body.arg_count as i128))
            .set("locals", J::Arr(locals))
            .set("names", J::Arr(names))
            .set("blocks", J::Arr(blocks))
    }
}
