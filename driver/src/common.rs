use crate::json::J;
use rustc_hir::def_id::{DefId, LocalDefId};
use rustc_middle::ty::print::with_no_trimmed_paths;
use rustc_middle::ty::{self, GenericArgsRef, Ty, TyCtxt};
use rustc_span::Span;

pub fn span_str(tcx: TyCtxt<'_>, sp: Span) -> String {
    let sp = sp.source_callsite();
    let sm = tcx.sess.source_map();
    let lo = sm.lookup_char_pos(sp.lo());
    let hi = sm.lookup_char_pos(sp.hi());
    let name = format!("{}", lo.file.name.prefer_local_unconditionally());
    format!("{}:{}:{}-{}:{}", name, lo.line, lo.col.0 + 1, hi.line, hi.col.0 + 1)
}

pub fn span_j(tcx: TyCtxt<'_>, sp: Span) -> J {
    J::s(span_str(tcx, sp))
}

pub fn ty_str<'tcx>(ty: Ty<'tcx>) -> String {
    with_no_trimmed_paths!(ty.to_string())
}

pub fn path_str(tcx: TyCtxt<'_>, def: DefId) -> String {
    with_no_trimmed_paths!(tcx.def_path_str(def))
}

pub fn did_str(def: DefId) -> String {
    format!("{}:{}", def.krate.as_u32(), def.index.as_u32())
}

pub fn args_j<'tcx>(args: GenericArgsRef<'tcx>) -> J {
    J::Arr(
        args.iter()
            .map(|a| J::s(with_no_trimmed_paths!(a.to_string())))
            .collect(),
    )
}

/// Everything the rule layer needs to know about a function-like definition that is
/// referenced (called, or mentioned as a value).
pub fn fn_ref<'tcx>(
    tcx: TyCtxt<'tcx>,
    owner: LocalDefId,
    def: DefId,
    args: GenericArgsRef<'tcx>,
) -> J {
    let mut o = J::obj();
    o.put("did", J::s(did_str(def)));
    o.put("path", J::s(path_str(tcx, def)));
    o.put("krate", J::s(tcx.crate_name(def.krate).to_string()));
    o.put("local", J::Bool(def.is_local()));
    o.put("args", args_j(args));
    if let Some(name) = tcx.opt_item_name(def) {
        o.put("name", J::s(name.to_string()));
    }
    if let Some(assoc) = tcx.opt_associated_item(def) {
        match assoc.container {
            ty::AssocContainer::Trait => {
                let tr = tcx.parent(def);
                o.put("container", J::s("trait"));
                o.put("trait", J::s(path_str(tcx, tr)));
            }
            ty::AssocContainer::TraitImpl(_) => {
                let imp = tcx.parent(def);
                o.put("container", J::s("trait_impl"));
                let tr = tcx.impl_trait_ref(imp);
                let tr = tr.instantiate_identity().skip_norm_wip();
                o.put("trait", J::s(path_str(tcx, tr.def_id)));
                o.put("self_ty", J::s(ty_str(tr.self_ty())));
            }
            ty::AssocContainer::InherentImpl => {
                let imp = tcx.parent(def);
                o.put("container", J::s("inherent"));
                let st = tcx.type_of(imp).instantiate_identity().skip_norm_wip();
                o.put("self_ty", J::s(ty_str(st)));
            }
        }
    }
    // Try to resolve trait-method calls to the impl that will run.
    let is_fn = matches!(
        tcx.def_kind(def),
        rustc_hir::def::DefKind::Fn | rustc_hir::def::DefKind::AssocFn
    );
    if is_fn {
        let env = ty::TypingEnv::post_analysis(tcx, owner);
        if let Ok(Some(inst)) = ty::Instance::try_resolve(tcx, env, def, args) {
            let rd = inst.def_id();
            if rd != def {
                o.put("resolved_did", J::s(did_str(rd)));
                o.put("resolved_path", J::s(path_str(tcx, rd)));
                o.put("resolved_local", J::Bool(rd.is_local()));
            }
        }
    }
    o
}
