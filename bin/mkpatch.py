#!/usr/bin/env python3
"""mkpatch.py <out.diff> <file-relative-to-repo> <old> <new> [<file> <old> <new>]...  (exact-string replacement, must match once)"""
import sys, os, subprocess, tempfile, shutil
out = sys.argv[1]
trip = sys.argv[2:]
tmp = tempfile.mkdtemp(prefix='mkpatch-')
try:
    for side in ('a', 'b'):
        os.makedirs(os.path.join(tmp, side))
    files = sorted(set(trip[0::3]))
    for f in files:
        for side in ('a', 'b'):
            d = os.path.join(tmp, side, os.path.dirname(f))
            os.makedirs(d, exist_ok=True)
            shutil.copy(os.path.join('/repo', f), os.path.join(tmp, side, f))
    for f, old, new in zip(trip[0::3], trip[1::3], trip[2::3]):
        p = os.path.join(tmp, 'b', f)
        s = open(p).read()
        if s.count(old) != 1:
            sys.exit('mkpatch: %r matches %d times in %s' % (old, s.count(old), f))
        open(p, 'w').write(s.replace(old, new))
    r = subprocess.run(['diff', '-ru', 'a', 'b'], cwd=tmp, capture_output=True, text=True)
    open(out, 'w').write(r.stdout)
finally:
    shutil.rmtree(tmp)
