#!/usr/bin/env python3
"""selftest_all.py [--jobs N] [--only substr]: one extraction per patch, all 18 specs on it.
  selftest/benign/*.diff                -> no property may report anything
  selftest/mutants/Cxx_*.diff, seeded/Cxx_*/patch.diff -> property Cxx must report at least one key
Scratch copies and private target directories live under a temp dir that is removed at the end."""
import glob, json, os, shutil, subprocess, sys, tempfile
from concurrent.futures import ThreadPoolExecutor
V = '/verif'
jobs = int(sys.argv[sys.argv.index('--jobs') + 1]) if '--jobs' in sys.argv else 6
only = sys.argv[sys.argv.index('--only') + 1] if '--only' in sys.argv else None
items = [(p, 'benign', None) for p in sorted(glob.glob(V + '/selftest/benign/*.diff'))]
items += [(p, 'mutant', os.path.basename(p)[:3]) for p in sorted(glob.glob(V + '/selftest/mutants/C*.diff'))]
items += [(os.path.join(d, 'patch.diff'), 'seeded', os.path.basename(d)[:3]) for d in sorted(glob.glob(V + '/seeded/C*'))]
if only:
    items = [x for x in items if only in x[0]]
W = tempfile.mkdtemp(prefix='mcmc-selftest-')
tdirs = []
for j in range(jobs):
    d = os.path.join(W, 't%d' % j)
    shutil.copytree(V + '/.cache/target', d, symlinks=True)
    tdirs.append(d)
import queue
tq = queue.Queue()
for d in tdirs:
    tq.put(d)

def run(item):
    patch, kind, pid = item
    t = tq.get()
    S = tempfile.mkdtemp(prefix='s-', dir=W)
    try:
        subprocess.run(['rsync', '-a', '--exclude', 'target', '--exclude', '.git', '/repo/', S + '/repo/'], check=True)
        r = subprocess.run(['patch', '-p1', '-s', '-i', patch], cwd=S + '/repo', capture_output=True, text=True)
        if r.returncode != 0:
            return (patch, kind, pid, 'patch-failed', None)
        env = dict(os.environ, MCMC_TARGET_DIR=t)
        r = subprocess.run([V + '/bin/extract.sh', S + '/facts.json', S + '/repo', 'csv,arrow,parquet'], capture_output=True, text=True, env=env)
        if r.returncode != 0:
            return (patch, kind, pid, 'does-not-compile', None)
        env2 = dict(os.environ, VERIF_NO_EVIDENCE='1')
        r = subprocess.run(['python3', '-m', 'rules.runall', S + '/facts.json'], cwd=V, capture_output=True, text=True, env=env2)
        res = json.loads(r.stdout.strip().splitlines()[-1])
        return (patch, kind, pid, 'ok', res)
    finally:
        shutil.rmtree(S, ignore_errors=True)
        tq.put(t)

bad = 0
try:
    with ThreadPoolExecutor(max_workers=jobs) as ex:
        for patch, kind, pid, st, res in ex.map(run, items):
            name = patch.replace(V + '/', '')
            if st != 'ok':
                print('SKIP   %-70s %s' % (name, st)); continue
            if kind == 'benign':
                hits = {k: v for k, v in res.items() if v}
                if hits:
                    bad += 1
                    print('ALARM  %-70s %s' % (name, json.dumps({k: v[:2] for k, v in hits.items()})[:300]))
                else:
                    print('silent %-70s' % name)
            else:
                if res.get(pid):
                    others = [k for k, v in res.items() if v and k != pid]
                    print('caught %-70s %s %d key(s)%s' % (name, pid, len(res[pid]), (' (+' + ','.join(others) + ')') if others else ''))
                else:
                    bad += 1
                    print('MISSED %-70s by %s; others: %s' % (name, pid, [k for k, v in res.items() if v]))
finally:
    shutil.rmtree(W, ignore_errors=True)
print('SELFTEST', 'FAILED %d' % bad if bad else 'OK', len(items), 'patches')
sys.exit(1 if bad else 0)
