#!/bin/bash
# mk_worktree.sh <name> : scratch git worktree of /repo (HEAD) under /tmp with a warm target dir
set -euo pipefail
D=/tmp/wt-$1
git -C /repo worktree add --detach "$D" HEAD >/dev/null 2>&1
cp -r /repo/target "$D/target"
echo "$D"
