#!/bin/bash
# Build the driver and warm the dependency cache (offline).
set -euo pipefail
cd /verif/driver
CARGO_NET_OFFLINE=true cargo build --release --offline
cd /verif
mkdir -p .cache evidence
T=$(mktemp -d /tmp/mcmc-setup-XXXXXX)
trap 'rm -rf "$T"' EXIT
bin/extract.sh "$T/facts.json" /repo csv,arrow,parquet
python3 -c "import json,sys; f=json.load(open('$T/facts.json')); assert f['crate']=='mini_mcmc' and len(f['bodies'])>100; print('setup ok: %d bodies' % len(f['bodies']))"
