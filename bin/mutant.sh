#!/bin/bash
# usage: mutant.sh <patch.diff|--sed 's/a/b/' file> -- <pid>...   : run checks against a scratch copy of /repo with the patch applied
set -uo pipefail
PATCH="$(realpath "$1")"; shift
S=$(mktemp -d /tmp/mcmc-mut-XXXXXX)
trap 'rm -rf "$S"' EXIT
rsync -a --exclude target --exclude .git /repo/ "$S/repo/"
if ! (cd "$S/repo" && patch -p1 -s < "$PATCH"); then echo "PATCH-FAILED $PATCH"; exit 3; fi
if ! /verif/bin/extract.sh "$S/facts.json" "$S/repo" csv,arrow,parquet; then echo "EXTRACT-FAILED (mutant does not compile?)"; exit 4; fi
cd /verif
rc=0
for pid in "$@"; do
  VERIF_NO_EVIDENCE=1 python3 -m rules.runner "$pid" "$S/facts.json" mutant || rc=1
done
exit $rc
