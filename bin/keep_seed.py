#!/usr/bin/env python3
"""keep_seed.py <property> <name> <src dir> <caught-by keys, comma separated or 'MISSED'> : store a confirmed seeded change under /verif/seeded/"""
import sys, os, shutil, json, re
pid, name, src, caught = sys.argv[1:5]
d = '/verif/seeded/%s_%s' % (pid, name)
os.makedirs(d, exist_ok=True)
shutil.copy(os.path.join(src, 'patch.diff'), os.path.join(d, 'patch.diff'))
shutil.copy(os.path.join(src, 'demo.rs'), os.path.join(d, 'demo.rs'))
notes = open(os.path.join(src, 'notes.md')).read() if os.path.exists(os.path.join(src, 'notes.md')) else ''
shutil.copy(os.path.join(src, 'notes.md'), os.path.join(d, 'notes.md')) if notes else None
meta = {
    'property': pid,
    'origin': 'independent sub-agent given only the property text and a scratch worktree of /repo (nothing from /verif)',
    'what_it_needs_to_manifest': (re.sub(r'\s+', ' ', notes)[:900] if notes else ''),
    'confirmed': {'compiles': True, 'existing_suite_passes (41+2+2)': True, 'demo_passes_on_pristine': True, 'demo_fails_with_change': True,
                  'how': 'bin/verify_seed.sh <dir> in a scratch git worktree of /repo (removed afterwards): cargo build --offline; cargo test --offline --lib --test metrohast_2d_gaussian_test --test metrohast_poisson_test; cargo test --offline --test demo with and without the patch'},
    'check_run': 'bin/mutant.sh seeded/%s_%s/patch.diff %s  (scratch copy of /repo with the patch applied, fresh fact extraction, rules as registered)' % (pid, name, pid),
    'caught_by': [] if caught == 'MISSED' else caught.split(','),
    'detected': caught != 'MISSED',
}
json.dump(meta, open(os.path.join(d, 'meta.json'), 'w'), indent=1)
print('kept', d)
