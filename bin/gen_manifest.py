#!/usr/bin/env python3
"""Regenerate MANIFEST.json from the specification modules that are armed (rules/spec/Cxx.py)."""
import importlib, json, os, sys
sys.path.insert(0, '/verif')
props = [json.loads(l) for l in open('/verif/properties.jsonl')]
NOT_ARMED = 'rule not armed yet (framework under construction; see DESIGN.md section 8)'
NA_REASONS = {}
if os.path.exists('/verif/not_applicable.json'):
    NA_REASONS = json.load(open('/verif/not_applicable.json'))
checks, na = [], []
for p in props:
    pid = p['id']
    try:
        mod = importlib.import_module('rules.spec.' + pid)
    except ModuleNotFoundError:
        mod = None
    if mod is None or not getattr(mod, 'CLAIMED', True) or pid in NA_REASONS:
        na.append({'property_id': pid, 'reason': NA_REASONS.get(pid, NOT_ARMED)})
        continue
    checks.append({
        'property_id': pid,
        'quick_cmd': './check %s quick' % pid,
        'thorough_cmd': './check %s thorough' % pid,
        'evidence_file': '/verif/evidence/%s.json' % pid,
        'replay_cmd_template': './check %s --explain {path}' % pid,
        'engine': 'mcmc-facts+rules',
        'level_claimed': {'category': 'other', 'text': getattr(mod, 'LEVEL_TEXT', mod.EXPLANATION), 'design_ref': 'DESIGN.md section 4/' + pid},
        'level_note': getattr(mod, 'LEVEL_NOTE', 'Trusted: rustc type checker and THIR/MIR construction; the semantic table of external callees (rules/semtab.py); library contracts listed in DESIGN.md 3.3. Decides the structural clauses named above, not numeric behaviour.'),
        'technique': getattr(mod, 'TECHNIQUE', 'static value-flow analysis'),
    })
m = {
    'version': 1,
    'setup_cmd': 'cd /verif && bin/setup.sh',
    'hooks': {'guard': 'mini_mcmc_verif', 'enable': 'none needed: the static analysis reads the unmodified source (no hook commits)',
              'baseline_off_cmd': 'cd /repo && cargo test --workspace --no-fail-fast --offline', 'source_commits': [], 'add_only': True},
    'engines': [
        {'name': 'mcmc-facts', 'path': 'driver/', 'serves_properties': [c['property_id'] for c in checks], 'kind_free_text': 'rustc_private driver exporting items, THIR and MIR of the workspace crate as JSON facts (run through RUSTC_WORKSPACE_WRAPPER on every check)'},
        {'name': 'rules', 'path': 'rules/', 'serves_properties': [c['property_id'] for c in checks], 'kind_free_text': 'Python rule layer: value-flow evaluator with algebraic normal forms, loop summaries, effect/typestate rules, specification tables per property'},
    ],
    'checks': checks,
    'notes': 'Static analysis only: every check re-extracts facts from /repo and decides from the source; nothing executes the library. See DESIGN.md.',
    'not_applicable': na,
}
json.dump(m, open('/verif/MANIFEST.json', 'w'), indent=1)
print('checks:', [c['property_id'] for c in checks]); print('not_applicable:', [n['property_id'] for n in na])
