#!/bin/bash
# verify_seed.sh <dir with patch.diff demo.rs> : confirm a seeded change (compiles, suite passes, demo passes on pristine / fails with change)
set -uo pipefail
SRC="$(realpath "$1")"
W=/tmp/ws-$$
git -C /repo worktree add --detach "$W" HEAD >/dev/null 2>&1
cp -r /repo/target "$W/target"
cd "$W"
res() { echo "$1=$2"; }
cp "$SRC/demo.rs" tests/demo.rs
if cargo test --offline ${SEED_FEATURES:+--features $SEED_FEATURES} --test demo >"$W/demo_pristine.log" 2>&1; then res demo_pristine pass; else res demo_pristine FAIL; tail -5 "$W/demo_pristine.log"; fi
if git apply --check "$SRC/patch.diff" 2>/dev/null; then git apply "$SRC/patch.diff"; res apply ok; else res apply FAIL; fi
if cargo build --offline >"$W/build.log" 2>&1; then res build ok; else res build FAIL; tail -5 "$W/build.log"; fi
if cargo test --offline --lib --test metrohast_2d_gaussian_test --test metrohast_poisson_test >"$W/suite.log" 2>&1; then res suite pass; else res suite FAIL; fi
grep -E "^test result" "$W/suite.log" | tr '\n' ' '; echo
if cargo test --offline ${SEED_FEATURES:+--features $SEED_FEATURES} --test demo >"$W/demo_changed.log" 2>&1; then res demo_changed PASS-unexpected; else res demo_changed fail; fi
cd /
git -C /repo worktree remove --force "$W"
