#!/bin/bash
# usage: extract.sh <out.json> [repo_dir] [features]
# Re-analyses the workspace crate with the mcmc-facts driver; fails closed if no fresh fact file appears.
set -euo pipefail
OUT="$1"; REPO="${2:-/repo}"; FEATURES="${3:-csv,arrow,parquet}"
V=/verif
T="${MCMC_TARGET_DIR:-$V/.cache/target}"
DRV=$V/driver/target/release/mcmc-facts
[ -x "$DRV" ] || { echo "extract: driver not built (run setup)" >&2; exit 2; }
SYSROOT=$(rustc +nightly --print sysroot)
PROFILE="${MCMC_PROFILE:-dev}"
PDIR=debug; PFLAG=()
if [ "$PROFILE" = "release" ]; then PDIR=release; PFLAG=(--release); fi
rm -f "$OUT"
rm -rf "$T"/$PDIR/.fingerprint/mini-mcmc-* 2>/dev/null || true
FEAT=()
[ -n "$FEATURES" ] && [ "$FEATURES" != "none" ] && FEAT=(--features "$FEATURES")
cd "$REPO"
if ! LD_LIBRARY_PATH="$SYSROOT/lib" RUSTC_WORKSPACE_WRAPPER="$DRV" MCMC_FACTS_OUT="$OUT" \
   CARGO_TARGET_DIR="$T" CARGO_NET_OFFLINE=true \
   cargo +nightly check --offline --lib "${PFLAG[@]}" "${FEAT[@]}" >"$OUT.log" 2>&1; then
  echo "extract: cargo check failed (see $OUT.log)" >&2
  tail -30 "$OUT.log" >&2
  exit 2
fi
[ -s "$OUT" ] || { echo "extract: no fact file written" >&2; exit 2; }
