#!/bin/bash
# store_seed.sh <pid> <name> <src dir> <history text> : run the property's check on the change, record the keys, store under seeded/
set -uo pipefail
PID=$1; NAME=$2; SRC=$3; HIST=${4:-}
cd /verif
KEYS=$(bin/mutant.sh "$SRC/patch.diff" "$PID" | grep -E "^  key " | sed 's/^  key *//' | paste -sd'|')
if [ -z "$KEYS" ]; then echo "NOT DETECTED: $PID $NAME"; exit 1; fi
python3 - "$PID" "$NAME" "$SRC" "$KEYS" "$HIST" <<'PY'
import sys, subprocess, json
pid, name, src, keys, hist = sys.argv[1:6]
subprocess.check_call(['python3', '/verif/bin/keep_seed.py', pid, name, src, 'MISSED'])
p = '/verif/seeded/%s_%s/meta.json' % (pid, name)
m = json.load(open(p))
m['caught_by'] = keys.split('|'); m['detected'] = True; m['history'] = hist or 'detected by the first version'; m['round'] = 2 if name.startswith('r2_') else 1
json.dump(m, open(p, 'w'), indent=1)
print('stored', pid, name, len(m['caught_by']), 'keys')
PY
