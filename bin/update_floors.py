#!/usr/bin/env python3
"""update_floors.py <facts.json>: record, per property, the set of rule ids that produce at least one obligation on the given
(reference) tree -> rules/floors.json.  Refuses when any obligation is violated / unrecognised: the reference is a clean tree."""
import sys, time, os, json
sys.path.insert(0, '/verif')
os.environ['VERIF_NO_EVIDENCE'] = '1'
from rules import runner
facts = sys.argv[1]
out = {}
from rules.facts import Facts, strip_generics, canon_path
F = Facts(facts)
out['_api'] = sorted(set(canon_path(b['path']) for b in F.bodies if F.is_hand_written(b) and b['def_kind'] in ('Fn', 'AssocFn') and ('Public' in (b.get('vis') or '') or b.get('container') in ('trait', 'trait_impl'))))
print('_api', len(out['_api']), 'functions')
_old = json.load(open('/verif/rules/floors.json')) if os.path.exists('/verif/rules/floors.json') else {}
_old['_api'] = out['_api']
json.dump(_old, open('/verif/rules/floors.json', 'w'), indent=1)   # the API list first: the frame rules read it
for i in range(1, 19):
    pid = 'C%02d' % i
    ctx, viol, known, lines, ev = runner.run_property(pid, facts, 'sweep', time.time(), quiet=True)
    real = [o for o in viol if '.floor' not in o.key]
    if real:
        sys.exit('%s: %d violations on the reference tree, floors not updated: %s' % (pid, len(real), real[0].key))
    out[pid] = sorted(set(o.oid for o in ctx.obs if not o.oid.endswith('.floor')))
    print(pid, len(out[pid]), 'rules,', len(ctx.obs), 'obligations')
json.dump(out, open('/verif/rules/floors.json', 'w'), indent=1)
