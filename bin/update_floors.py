#!/usr/bin/env python3
"""update_floors.py <facts.json>: set every spec's obligation floor to the count instantiated on the given (reference) tree.
Refuses when any obligation is violated / unrecognised: floors are only ever taken from a clean reference tree."""
import sys, re, time, os
sys.path.insert(0, '/verif')
os.environ['VERIF_NO_EVIDENCE'] = '1'
from rules import runner
facts = sys.argv[1]
for i in range(1, 19):
    pid = 'C%02d' % i
    ctx, viol, known, lines, ev = runner.run_property(pid, facts, 'sweep', time.time(), quiet=True)
    real = [o for o in viol if 'floor' not in o.key]
    if real:
        sys.exit('%s: %d violations on the reference tree, floors not updated: %s' % (pid, len(real), real[0].key))
    n = len([o for o in ctx.obs if 'floor' not in o.key])
    f = '/verif/rules/spec/%s.py' % pid
    s = open(f).read()
    s2 = re.sub(r"FLOORS = \{'obligations': \d+\}", "FLOORS = {'obligations': %d}" % n, s, 1)
    if s2 != s:
        open(f, 'w').write(s2)
        print(pid, 'floor ->', n)
