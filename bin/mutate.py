#!/usr/bin/env python3
"""Systematic source-level mutation of the analysed functions (blind-spot discovery for the rules).

mutate.py enumerate <facts.json> <out.json>      list mutation sites from THIR spans
mutate.py enumerate-swaps <facts.json> <out.json>   statement-order mutants (adjacent statements that share a name, exchanged)
mutate.py run <sites.json> <results.json> [--jobs N] [--only substr]   apply each, extract facts, run all 18 specs

A mutant is one textual replacement at a THIR-derived span: arithmetic / relational operator flips, compound-assignment
flips, logical operator flips, literal perturbation, swapped arguments of two-argument calls, known method swaps, deletion
of a call statement.  Mutants that do not compile are recorded as such.  Survivors are either equivalent mutants or blind
spots of the rules; they are triaged by hand (DESIGN.md 10.6).
"""
import json
import os
import re
import shutil
import subprocess
import sys
import tempfile
from concurrent.futures import ThreadPoolExecutor

HERE = os.path.dirname(os.path.dirname(os.path.abspath(__file__)))
sys.path.insert(0, HERE)
from rules.facts import Facts, walk, callee_key, strip_generics  # noqa: E402

BIN_FLIP = {'Add': ('+', '-'), 'Sub': ('-', '+'), 'Mul': ('*', '/'), 'Div': ('/', '*'), 'Lt': ('<', '<='), 'Le': ('<=', '<'), 'Gt': ('>', '>='), 'Ge': ('>=', '>'),
            'Eq': ('==', '!='), 'Ne': ('!=', '==')}
ASSIGN_FLIP = {'AddAssign': ('+=', '-='), 'SubAssign': ('-=', '+='), 'MulAssign': ('*=', '/='), 'DivAssign': ('/=', '*=')}
METHOD_SWAP = {'greater_equal': 'greater', 'greater': 'greater_equal', 'lower': 'lower_equal', 'min': 'max', 'max': 'min', 'first': 'last', 'last': 'first',
               'greater_equal_elem': 'greater_elem', 'lt': 'le', 'gt': 'ge', 'wrapping_add': 'wrapping_sub', 'add': 'sub', 'sub': 'add', 'mul_scalar': 'div_scalar',
               'add_scalar': 'sub_scalar', 'exp': 'ln', 'ln': 'exp', 'sqrt': 'abs', 'mean_axis': 'sum_axis', 'sum_axis': 'mean_axis', 'powi_scalar': 'mul_scalar',
               'recip': 'abs', 'total_cmp': 'total_cmp'}
OPS_TRAIT = {'std::ops::Add::add': ('+', '-'), 'std::ops::Sub::sub': ('-', '+'), 'std::ops::Mul::mul': ('*', '/'), 'std::ops::Div::div': ('/', '*'),
             'std::cmp::PartialOrd::lt': ('<', '<='), 'std::cmp::PartialOrd::le': ('<=', '<'), 'std::cmp::PartialOrd::gt': ('>', '>='), 'std::cmp::PartialOrd::ge': ('>=', '>'),
             'std::ops::AddAssign::add_assign': ('+=', '-='), 'std::ops::MulAssign::mul_assign': ('*=', '/='), 'std::ops::Neg::neg': ('-', '')}


def parse_sp(sp):
    m = re.match(r'(.*):(\d+):(\d+)-(\d+):(\d+)$', sp)
    return m.group(1), int(m.group(2)), int(m.group(3)), int(m.group(4)), int(m.group(5))


class Src:
    def __init__(self, root):
        self.root = root
        self.cache = {}

    def text(self, f):
        if f not in self.cache:
            t = open(os.path.join(self.root, f)).read()
            offs = [0]
            for line in t.split('\n'):
                offs.append(offs[-1] + len(line) + 1)
            self.cache[f] = (t, offs)
        return self.cache[f]

    def off(self, f, line, col):
        t, offs = self.text(f)
        # columns are 1-based character columns
        return offs[line - 1] + (col - 1)

    def span(self, sp):
        f, l1, c1, l2, c2 = parse_sp(sp)
        return f, self.off(f, l1, c1), self.off(f, l2, c2)


def enumerate_sites(facts_path, repo='/repo', fn_filter=None):
    F = Facts(facts_path)
    src = Src(repo)
    sites = []
    seen = set()

    def add(f, a, b, new, desc, fn):
        key = (f, a, b, new)
        t, _ = src.text(f)
        if key in seen or t[a:b] == new:
            return
        seen.add(key)
        line = t.count('\n', 0, a) + 1
        sites.append({'file': f, 'start': a, 'end': b, 'old': t[a:b], 'new': new, 'desc': desc, 'fn': fn, 'line': line})

    for b in F.bodies:
        if not F.is_hand_written(b) or b['def_kind'] not in ('Fn', 'AssocFn', 'Closure'):
            continue
        root = F.closure_root(b) or b
        fn = strip_generics(root['path'])
        if fn_filter and not fn_filter(fn):
            continue
        if 'tests::' in fn or fn.startswith('dev_tools'):
            continue

        def f(n, fn=fn):
            if n.get('exp'):
                return
            k = n.get('k')
            try:
                if k == 'Binary' and n['op'] in BIN_FLIP and not n['l'].get('exp') and not n['r'].get('exp'):
                    fl, a0, a1 = src.span(n['l']['sp'])
                    fr, b0, b1 = src.span(n['r']['sp'])
                    t, _ = src.text(fl)
                    between = t[a1:b0]
                    old, new = BIN_FLIP[n['op']]
                    i = between.find(old)
                    if fl == fr and i >= 0 and between.strip().strip('()') .strip() == old:
                        add(fl, a1 + i, a1 + i + len(old), new, 'binary %s -> %s' % (old, new), fn)
                if k == 'AssignOp' and n['op'] in ASSIGN_FLIP:
                    fl, a0, a1 = src.span(n['l']['sp'])
                    fr, b0, b1 = src.span(n['r']['sp'])
                    t, _ = src.text(fl)
                    old, new = ASSIGN_FLIP[n['op']]
                    i = t[a1:b0].find(old)
                    if i >= 0:
                        add(fl, a1 + i, a1 + i + len(old), new, 'assign-op %s -> %s' % (old, new), fn)
                if k == 'Logical':
                    fl, a0, a1 = src.span(n['l']['sp'])
                    fr, b0, b1 = src.span(n['r']['sp'])
                    t, _ = src.text(fl)
                    old, new = ('&&', '||') if n['op'] == 'And' else ('||', '&&')
                    i = t[a1:b0].find(old)
                    if i >= 0:
                        add(fl, a1 + i, a1 + i + 2, new, 'logical %s -> %s' % (old, new), fn)
                if k == 'Lit' and n.get('lit') in ('int', 'float'):
                    fl, a0, a1 = src.span(n['sp'])
                    t, _ = src.text(fl)
                    txt = t[a0:a1]
                    if re.fullmatch(r'[0-9][0-9_]*(\.[0-9]+)?(f32|f64|usize|u64|i32)?', txt):
                        m = re.match(r'([0-9][0-9_]*)(\.[0-9]+)?(.*)', txt)
                        whole, frac, suf = m.group(1), m.group(2), m.group(3)
                        if frac is None:
                            add(fl, a0, a1, str(int(whole.replace('_', '')) + 1) + suf, 'int literal %s +1' % txt, fn)
                        else:
                            add(fl, a0, a1, str(float(whole + frac) * 2 + 1) + suf, 'float literal %s -> 2x+1' % txt, fn)
                if k == 'Call' and n.get('fn'):
                    key = callee_key(n['fn'])
                    name = n['fn'].get('name', '')
                    args = n.get('args') or []
                    if not n.get('hir_call') and key in OPS_TRAIT and len(args) == 2 and not args[0].get('exp') and not args[1].get('exp'):
                        fl, a0, a1 = src.span(args[0]['sp'])
                        fr, b0, b1 = src.span(args[1]['sp'])
                        t, _ = src.text(fl)
                        old, new = OPS_TRAIT[key]
                        between = t[a1:b0]
                        i = between.find(old)
                        if fl == fr and i >= 0 and between.strip().strip('()').strip() == old:
                            add(fl, a1 + i, a1 + i + len(old), new, 'operator %s -> %s' % (old, new), fn)
                    if n.get('hir_call') and name in METHOD_SWAP and METHOD_SWAP[name] != name:
                        fl, a0, a1 = src.span(n['fn_sp'])
                        t, _ = src.text(fl)
                        if t[a0:a0 + len(name)] == name:
                            add(fl, a0, a0 + len(name), METHOD_SWAP[name], 'method %s -> %s' % (name, METHOD_SWAP[name]), fn)
                    # swapped arguments of calls whose (non-receiver) arguments have the same type
                    if n.get('hir_call') and len(args) >= 2:
                        cand = args[-2:]
                        if cand[0].get('ty') == cand[1].get('ty') and not cand[0].get('exp') and not cand[1].get('exp'):
                            f0, s0, e0 = src.span(cand[0]['sp'])
                            f1, s1, e1 = src.span(cand[1]['sp'])
                            t, _ = src.text(f0)
                            if f0 == f1 and e0 <= s1 and t[s0:e0] != t[s1:e1] and '\n' not in t[s0:e1][:400]:
                                add(f0, s0, e1, t[s1:e1] + t[e0:s1] + t[s0:e0], 'swap args of %s' % name, fn)
                if k == 'Unary' and n.get('op') == 'Not' and n.get('ty') == 'bool':
                    fl, a0, a1 = src.span(n['sp'])
                    t, _ = src.text(fl)
                    if t[a0] == '!':
                        add(fl, a0, a0 + 1, '', 'drop !', fn)
            except Exception:
                pass
        walk(b.get('thir'), f)
        # delete call statements
        def g(n, fn=fn):
            if n.get('k') == 'Block':
                for st in n.get('stmts', []):
                    if st.get('k') == 'Expr' and st['e'].get('k') == 'Call' and not st['e'].get('exp') and st['e'].get('hir_call'):
                        try:
                            fl, a0, a1 = src.span(st['e']['sp'])
                            t, _ = src.text(fl)
                            if t[a1:a1 + 1] == ';' and '\n' not in t[a0:a1]:
                                add(fl, a0, a1 + 1, '', 'delete statement `%s`' % t[a0:a1][:50], fn)
                        except Exception:
                            pass
        walk(b.get('thir'), g)
    return sites


KEYWORDS = set('let mut if else for in while loop match return break continue as ref move fn pub use where impl self Self true false Some None Ok Err unwrap expect clone into iter collect map'.split())


def enumerate_swaps(facts_path, repo='/repo'):
    """statement-order mutants: two adjacent statements of one block exchanged (only pairs that mention a common name:
    independent statements commute and would all be equivalent mutants)"""
    F = Facts(facts_path)
    src = Src(repo)
    sites, seen = [], set()

    def stmt_span(st):
        if st.get('k') == 'Let':
            if not st.get('sp'):
                return None
            f, a, b = src.span(st['sp'])
        else:
            e = st.get('e') or {}
            if e.get('exp') or not e.get('sp'):
                return None
            f, a, b = src.span(e['sp'])
            t, _ = src.text(f)
            if t[b:b + 1] == ';':
                b += 1
        return f, a, b

    def names(txt):
        txt = re.sub(r'//[^\n]*', '', txt)
        toks = set(re.findall(r'self\.[a-z_][a-z0-9_]*|\b[a-z_][a-z0-9_]*\b', txt))
        return {x for x in toks if x not in KEYWORDS and len(x) > 1}

    for b in F.bodies:
        if not F.is_hand_written(b) or b['def_kind'] not in ('Fn', 'AssocFn', 'Closure'):
            continue
        root = F.closure_root(b) or b
        fn = strip_generics(root['path'])
        if 'tests::' in fn or fn.startswith('dev_tools'):
            continue

        def g(n, fn=fn):
            if n.get('k') != 'Block':
                return
            sts = n.get('stmts', [])
            for i in range(len(sts) - 1):
                try:
                    s1, s2 = stmt_span(sts[i]), stmt_span(sts[i + 1])
                    if not s1 or not s2 or s1[0] != s2[0] or s1[2] > s2[1]:
                        continue
                    f, a0, a1 = s1
                    _, b0, b1 = s2
                    t, _ = src.text(f)
                    x, mid, y = t[a0:a1], t[a1:b0], t[b0:b1]
                    if mid.strip() and not all(l.strip().startswith('//') or not l.strip() for l in mid.split('\n')):
                        continue
                    if not (names(x) & names(y)):
                        continue
                    key = (f, a0, b1)
                    if key in seen:
                        continue
                    seen.add(key)
                    line = t.count('\n', 0, a0) + 1
                    sites.append({'file': f, 'start': a0, 'end': b1, 'old': t[a0:b1], 'new': y + mid + x, 'desc': 'swap statements `%s` <-> `%s`' % (x.split('\n')[0][:40], y.split('\n')[0][:40]), 'fn': fn, 'line': line})
                except Exception:
                    pass
        walk(b.get('thir'), g)
    return sites


def run_one(args):
    site, idx, tdir = args
    S = tempfile.mkdtemp(prefix='mcmc-mutate-')
    try:
        subprocess.run(['rsync', '-a', '--exclude', 'target', '--exclude', '.git', '/repo/', S + '/repo/'], check=True)
        p = os.path.join(S, 'repo', site['file'])
        t = open(p).read()
        if t[site['start']:site['end']] != site['old']:
            return idx, {'status': 'stale'}
        open(p, 'w').write(t[:site['start']] + site['new'] + t[site['end']:])
        env = dict(os.environ)
        env['MCMC_TARGET_DIR'] = tdir
        r = subprocess.run([os.path.join(HERE, 'bin', 'extract.sh'), S + '/facts.json', S + '/repo', 'csv,arrow,parquet'], env=env, capture_output=True, text=True)
        if r.returncode != 0:
            return idx, {'status': 'does-not-compile'}
        env['VERIF_NO_EVIDENCE'] = '1'
        r = subprocess.run([sys.executable, '-m', 'rules.runall', S + '/facts.json'], cwd=HERE, env=env, capture_output=True, text=True)
        try:
            res = json.loads(r.stdout.strip().split('\n')[-1])
        except Exception:
            return idx, {'status': 'runner-error', 'err': (r.stderr or r.stdout)[-300:]}
        killed = {k: v for k, v in res.items() if v}
        return idx, {'status': 'killed' if killed else 'survived', 'killed_by': sorted(killed), 'keys': {k: v[:3] for k, v in killed.items()}}
    finally:
        shutil.rmtree(S, ignore_errors=True)


def main():
    cmd = sys.argv[1]
    if cmd == 'enumerate':
        sites = enumerate_sites(sys.argv[2])
        json.dump(sites, open(sys.argv[3], 'w'), indent=1)
        from collections import Counter
        print(len(sites), 'sites;', Counter(s['file'] for s in sites))
    elif cmd == 'enumerate-assign-deletes':
        # statement-deletion mutants for plain assignments `place = e;` / `place op= e;` (the first sweep deleted call statements only)
        F = Facts(sys.argv[2])
        src = Src('/repo')
        sites, seen = [], set()
        for b in F.bodies:
            if not F.is_hand_written(b) or b['def_kind'] not in ('Fn', 'AssocFn', 'Closure'):
                continue
            root = F.closure_root(b) or b
            fn = strip_generics(root['path'])
            if 'tests::' in fn or fn.startswith('dev_tools'):
                continue

            def g(n, fn=fn):
                if n.get('k') != 'Block':
                    return
                for st in n.get('stmts', []):
                    e = st.get('e') or {}
                    if st.get('k') == 'Expr' and e.get('k') in ('Assign', 'AssignOp') and not e.get('exp') and e.get('sp'):
                        try:
                            f, a0, a1 = src.span(e['sp'])
                            t, _ = src.text(f)
                            if t[a1:a1 + 1] == ';' and (f, a0) not in seen:
                                seen.add((f, a0))
                                sites.append({'file': f, 'start': a0, 'end': a1 + 1, 'old': t[a0:a1 + 1], 'new': '', 'desc': 'delete assignment `%s`' % t[a0:a1].split('\n')[0][:60], 'fn': fn, 'line': t.count('\n', 0, a0) + 1})
                        except Exception:
                            pass
            walk(b.get('thir'), g)
        json.dump(sites, open(sys.argv[3], 'w'), indent=1)
        print(len(sites), 'sites')
    elif cmd == 'enumerate-logic':
        # one operand of `a && b` / `a || b` dropped; half-open ranges made inclusive (`a..b` -> `a..=b`)
        F = Facts(sys.argv[2])
        src = Src('/repo')
        sites, seen = [], set()

        def add(f, a, b, new, desc, fn):
            t, _ = src.text(f)
            if (f, a, b, new) in seen or t[a:b] == new:
                return
            seen.add((f, a, b, new))
            sites.append({'file': f, 'start': a, 'end': b, 'old': t[a:b], 'new': new, 'desc': desc, 'fn': fn, 'line': t.count('\n', 0, a) + 1})
        for b in F.bodies:
            if not F.is_hand_written(b) or b['def_kind'] not in ('Fn', 'AssocFn', 'Closure'):
                continue
            root = F.closure_root(b) or b
            fn = strip_generics(root['path'])
            if 'tests::' in fn or fn.startswith('dev_tools'):
                continue

            def g(n, fn=fn):
                try:
                    if n.get('k') == 'Logical' and not n.get('exp') and not n['l'].get('exp') and not n['r'].get('exp'):
                        f, a0, a1 = src.span(n['sp'])
                        fl, l0, l1 = src.span(n['l']['sp'])
                        fr, r0, r1 = src.span(n['r']['sp'])
                        t, _ = src.text(f)
                        if f == fl == fr:
                            add(f, a0, a1, t[l0:l1], 'keep left operand of `%s`' % t[a0:a1].replace('\n', ' ')[:60], fn)
                            add(f, a0, a1, t[r0:r1], 'keep right operand of `%s`' % t[a0:a1].replace('\n', ' ')[:60], fn)
                    if n.get('k') == 'Adt' and n.get('adt') == 'std::ops::Range' and len(n.get('fields', [])) == 2:
                        fs = sorted(n['fields'], key=lambda x: x.get('idx', 0))
                        e0, e1 = fs[0]['e'], fs[1]['e']
                        if e0.get('sp') and e1.get('sp'):
                            f, a0, a1 = src.span(e0['sp'])
                            f2, b0, b1 = src.span(e1['sp'])
                            t, _ = src.text(f)
                            mid = t[a1:b0]
                            if f == f2 and mid.strip().strip('()') == '..':
                                i = mid.find('..')
                                add(f, a1 + i, a1 + i + 2, '..=', 'range `%s..%s` made inclusive' % (t[a0:a1][:20], t[b0:b1][:20]), fn)
                except Exception:
                    pass
            walk(b.get('thir'), g)
        json.dump(sites, open(sys.argv[3], 'w'), indent=1)
        print(len(sites), 'sites')
    elif cmd == 'enumerate-swaps':
        sites = enumerate_swaps(sys.argv[2])
        json.dump(sites, open(sys.argv[3], 'w'), indent=1)
        from collections import Counter
        print(len(sites), 'sites;', Counter(s['file'] for s in sites))
    elif cmd == 'run':
        sites = json.load(open(sys.argv[2]))
        out = sys.argv[3]
        jobs = int(sys.argv[sys.argv.index('--jobs') + 1]) if '--jobs' in sys.argv else 8
        only = sys.argv[sys.argv.index('--only') + 1] if '--only' in sys.argv else None
        todo = [(i, s) for i, s in enumerate(sites) if not only or only in s['fn'] or only in s['file']]
        results = json.load(open(out)) if os.path.exists(out) else {}
        todo = [(i, s) for i, s in todo if str(i) not in results]
        W = tempfile.mkdtemp(prefix='mcmc-mutate-targets-')
        tdirs = []
        for j in range(jobs):
            d = os.path.join(W, 't%d' % j)
            shutil.copytree('/verif/.cache/target', d, symlinks=True)
            tdirs.append(d)
        try:
            with ThreadPoolExecutor(max_workers=jobs) as ex:
                for w0 in range(0, len(todo), jobs):
                    wave = todo[w0:w0 + jobs]
                    for idx, r in ex.map(run_one, [(s, i, tdirs[j]) for j, (i, s) in enumerate(wave)]):
                        r.update({k: sites[idx][k] for k in ('file', 'line', 'desc', 'fn', 'old', 'new')})
                        results[str(idx)] = r
                    json.dump(results, open(out, 'w'), indent=1)
                    done = len(results)
                    print('done %d / %d' % (done, len(sites)), flush=True)
        finally:
            shutil.rmtree(W, ignore_errors=True)


if __name__ == '__main__':
    main()
