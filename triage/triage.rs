use burn::backend::{Autodiff, NdArray};
use mini_mcmc::core::{init_det, ChainRunner, MarkovChain};
use mini_mcmc::distributions::{DiffableGaussian2D, Gaussian2D, IsotropicGaussian, Proposal};
use mini_mcmc::hmc::HMC;
use mini_mcmc::metropolis_hastings::MetropolisHastings;
use mini_mcmc::nuts::NUTS;
use mini_mcmc::stats::{basic_stats, collect_rhat, split_rhat_mean_ess, ChainTracker, MultiChainTracker};
use ndarray::{arr1, arr2, Array1, Array3};
use std::panic::{catch_unwind, AssertUnwindSafe};

fn main() {
    std::panic::set_hook(Box::new(|_| {}));
    // a. HMC same seed twice
    type B = Autodiff<NdArray>;
    let mk = || HMC::<f32, B, DiffableGaussian2D<f32>>::new(
        DiffableGaussian2D::new([0.0, 1.0], [[4.0, 2.0], [2.0, 3.0]]), vec![vec![0.0; 2]; 3], 0.1, 5).set_seed(7);
    let a = mk().run(5, 2).to_data().to_vec::<f32>().unwrap();
    let b = mk().run(5, 2).to_data().to_vec::<f32>().unwrap();
    println!("a. HMC same seed identical: {}", a == b);

    // b. MH chains: identical proposal streams?
    let target = Gaussian2D { mean: arr1(&[0.0f64, 1.0]), cov: arr2(&[[4.0, 2.0], [2.0, 3.0]]) };
    let mut mh = MetropolisHastings::new(target.clone(), IsotropicGaussian::new(1.0), vec![vec![0.0, 0.0]; 3]).seed(42);
    let s0 = mh.chains[0].proposal.sample(&[0.0, 0.0]);
    let s1 = mh.chains[1].proposal.sample(&[0.0, 0.0]);
    println!("b. MH chain0/chain1 proposal noise identical (seeded sampler, default proposal): {}", s0 == s1);
    let mk_mh = || MetropolisHastings::new(target.clone(), IsotropicGaussian::new(1.0), init_det(2, 2)).seed(42);
    let r1 = mk_mh().run(20, 5).unwrap(); let r2 = mk_mh().run(20, 5).unwrap();
    println!("b2. MH same seed (fresh default proposal) identical: {}", r1 == r2);

    // c. seed u64::MAX
    let r = catch_unwind(AssertUnwindSafe(|| { let _ = MetropolisHastings::new(target.clone(), IsotropicGaussian::new(1.0), init_det(2, 2)).seed(u64::MAX); }));
    println!("c. MH seed(u64::MAX) panics: {}", r.is_err());
    let r = catch_unwind(AssertUnwindSafe(|| { let _ = NUTS::<f32, B, _>::new(DiffableGaussian2D::new([0.0f32, 0.0], [[1.0, 0.0], [0.0, 1.0]]), vec![vec![0.0f32; 2]; 2], 0.8).set_seed(u64::MAX); }));
    println!("c. NUTS set_seed(u64::MAX) panics: {}", r.is_err());

    // d. split rhat of two chains far apart
    let mut s = Array3::<f32>::zeros((2, 100, 1));
    for t in 0..100 { s[[0, t, 0]] = (t % 7) as f32 * 0.1; s[[1, t, 0]] = 100.0 + (t % 5) as f32 * 0.1; }
    let (rhat, _ess) = split_rhat_mean_ess(s.view());
    println!("d. split R-hat for chains 100 apart: {:?} (should be >> 1)", rhat);

    // e. collect_rhat vs MultiChainTracker, 3 chains x 3 params
    let data: Vec<Vec<Vec<f32>>> = (0..3).map(|c| (0..50).map(|t| (0..3).map(|p| ((t * (c + 2) + p * 3) % 11) as f32 + c as f32 * (p as f32)).collect()).collect()).collect();
    let mut cts: Vec<ChainTracker> = (0..3).map(|c| ChainTracker::new(3, &data[c][0])).collect();
    let mut mt = MultiChainTracker::new(3, 3);
    for t in 0..50 { let mut flat = vec![]; for c in 0..3 { cts[c].step(&data[c][t]).unwrap(); flat.extend(data[c][t].iter().cloned()); } mt.step(&flat).unwrap(); }
    let cs: Vec<_> = cts.iter().map(|c| c.stats()).collect(); let refs: Vec<_> = cs.iter().collect();
    println!("e. collect_rhat {:?} vs MultiChainTracker::rhat {:?}", collect_rhat(&refs), mt.rhat().unwrap());

    // f. IsotropicGaussian logp vs closed form
    let q = IsotropicGaussian::<f64>::new(2.0);
    let lp = q.logp(&[0.0, 0.0, 0.0], &[1.0, -1.0, 0.5]);
    let exact = -(1.0 + 1.0 + 0.25) / (2.0 * 4.0) - 1.5 * (2.0 * std::f64::consts::PI * 4.0).ln();
    println!("f. IsotropicGaussian::logp = {lp}, closed form = {exact}");

    // g. f64 backend progress
    type B64 = Autodiff<NdArray<f64>>;
    let r = catch_unwind(AssertUnwindSafe(|| { let mut s = NUTS::<f64, B64, _>::new(DiffableGaussian2D::new([0.0f64, 0.0], [[1.0, 0.0], [0.0, 1.0]]), vec![vec![0.0f64; 2]; 2], 0.8).set_seed(1); s.run_progress(6, 2).map(|_| ()).map_err(|e| e.to_string()) }));
    println!("g. NUTS<f64, NdArray<f64>> run_progress: {:?}", r.map_err(|_| "PANIC"));
    let r = catch_unwind(AssertUnwindSafe(|| { let mut s = HMC::<f64, B64, DiffableGaussian2D<f64>>::new(DiffableGaussian2D::new([0.0, 1.0], [[4.0, 2.0], [2.0, 3.0]]), vec![vec![0.0; 2]; 3], 0.1, 5); s.run_progress(6, 2).map(|_| ()).map_err(|e| e.to_string()) }));
    println!("g. HMC<f64, NdArray<f64>> run_progress: {:?}", r.map_err(|_| "PANIC"));
    let r = catch_unwind(AssertUnwindSafe(|| { let mut s = HMC::<f64, B, DiffableGaussian2D<f64>>::new(DiffableGaussian2D::new([0.0, 1.0], [[4.0, 2.0], [2.0, 3.0]]), vec![vec![0.0; 2]; 3], 0.1, 5); s.run_progress(6, 2).map(|_| ()).map_err(|e| e.to_string()) }));
    println!("g. HMC<f64, NdArray<f32>> run_progress: {:?}", r.map_err(|_| "PANIC"));

    // h. basic_stats with NaNs
    let mut v: Vec<f32> = (0..40).map(|i| ((i * 7919) % 13) as f32).collect(); for i in [3usize, 11, 17, 29, 35] { v[i] = f32::NAN; }
    let r = catch_unwind(AssertUnwindSafe(|| basic_stats("x", Array1::from_vec(v.clone()))));
    println!("h. basic_stats with NaNs among 40 values: {:?}", r.map(|b| (b.min, b.median, b.max)).map_err(|_| "PANIC"));
    let _ = (mh.chains[0].step(), 0);
}
